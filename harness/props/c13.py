"""C13 — contextmanager equals asynccontextmanager for every generator and body outcome.

Four-way correspondence on every case: real asyncstdlib.contextmanager, real
contextlib.asynccontextmanager, Lean Impl, Lean Std (+ the declarative reading Decl).

A case = a generator *program* (start x handler x after, see `source`) x a block outcome x the
number of suspensions the generator performs.  The program is compiled to a literal
``async def`` generator function (its text is in the observation), decorated once with each
library, and used in a literal ``async with cm as x: <block>`` statement that is driven by hand.
The generator object handed to the libraries is wrapped in `GenProxy`, which records every
operation performed on it (``__anext__`` / ``athrow(obj)`` / ``aclose()``) and its result.
"""
import contextlib
import itertools
import sys

from framework import Issue
from world import Susp, drive, asyncstdlib

RULE = (
    "generator programs = {raise e before the yield (6 classes) | return without yielding | yield} x "
    "{no try | try/finally | except BaseException/Exception/GeneratorExit: pass | raise | raise new (Exception, RuntimeError, "
    "StopIteration, StopAsyncIteration) | raise new from None | raise new from exc | raise type(exc)() | return | yield again} x "
    "{stop | second plain yield | raise afterwards (Exception, RuntimeError, StopIteration, StopAsyncIteration) | second yield guarded by "
    "finally: raise / except GeneratorExit: yield / except GeneratorExit: pass}, crossed with block outcomes {normal, Exception, "
    "ValueError, BaseException subclass, KeyboardInterrupt, GeneratorExit, StopIteration, StopAsyncIteration, RuntimeError, "
    "RecursionError, RuntimeError raised from a StopIteration} and 0..2 suspensions inside the generator. "
    "Every case is a distinct (program, block, suspensions) triple; non-trivial = the generator was entered and woken up "
    "(at least two operations on the generator object)."
)
EXHAUSTIVE = {"quick": True, "thorough": True}
SCOPE = {
    "quick": "the whole program grammar (a superset of the property's 3 x 10 x 3) x all 11 block outcomes x 0,1 suspensions per await point",
    "thorough": "the whole program grammar x all 11 block outcomes x 0,1,2 suspensions per await point",
}
ASSUMPTIONS = [
    "message texts of the RuntimeErrors raised by the context managers are not compared (only that it is a RuntimeError made by the manager)",
    "__context__/__traceback__/__suppress_context__ are not compared (raise new / raise new from None differ only there)",
    "the statement is a real `async with`: __aexit__ always receives an exception instance (never value=None)",
    "generators terminate; awaits inside the generator are transparent (checked with 0..2 suspensions, replies sent back unchanged)",
    "a second yield guarded against GeneratorExit is outside the property's quantifier: CPython closes the generator before "
    "reporting 'did not stop', asyncstdlib does not (diagnostic `unclosed-second-yield`, Lean: C13_equals_asynccontextmanager_counterexample)",
]
TRUSTED = [
    "Machines/ContextManager.lean settle/aclose: PEP 479/525 promotion and aclose() semantics of the Python runtime "
    "(validated on every run against the real runtime through both libraries, not proved)",
    "Program.gen: the meaning of the harness's generator programs as behaviour trees (validated the same way)",
]

BLOCK_ID = 5


class BaseExc(BaseException):
    """a user subclass of BaseException (cancellation-like)"""


KINDS = {
    "Exception": Exception,
    "ValueError": ValueError,
    "BaseExc": BaseExc,
    "KeyboardInterrupt": KeyboardInterrupt,
    "GeneratorExit": GeneratorExit,
    "StopIteration": StopIteration,
    "StopAsyncIteration": StopAsyncIteration,
    "RuntimeError": RuntimeError,
    "RecursionError": RecursionError,
}
KIND_NAMES = {v: k for k, v in KINDS.items()}
# variants of a case: every injected exception is an instance of a trivial SUBCLASS of its kind ("sub": what an
# `exc_type in (StopIteration, ...)` / `type(exc) is ...` test misses) or of a subclass whose instances are FALSY ("falsy":
# what `if exc_val:` / `if not exc_val:` confuses with "no exception").  Both libraries decide by isinstance / by the type
# argument, so the expected outcome - and the Lean model's - is that of the plain kind.
_VARIANT_CLS = {}


def _falsy(self):
    return False


def _variant_class(kind, variant):
    base = KINDS[kind]
    if not variant or kind == "GeneratorExit":
        # asyncstdlib recognises generator shutdown by `exc_type is GeneratorExit` (a *subclass* instance is thrown in
        # like any other exception and still propagates as the same object): observed, not claimed as a finding - nothing
        # in Python raises subclasses of GeneratorExit
        return base
    key = (kind, variant)
    if key not in _VARIANT_CLS:
        ns = {"__bool__": _falsy} if variant == "falsy" else {}
        cls = type(base.__name__ + variant.capitalize(), (base,), ns)
        _VARIANT_CLS[key] = cls
        KIND_NAMES[cls] = kind
    return _VARIANT_CLS[key]


class ExcFactory:
    """exception objects interned by id within one run: same id = same object"""

    def __init__(self, variant=None):
        self.objs = {}
        self.variant = variant

    def __call__(self, spec):
        eid = spec[1]
        if eid not in self.objs:
            obj = _variant_class(spec[2], self.variant)()
            obj.eid = eid
            if spec[0] == "from":
                obj.__cause__ = self(spec[3])
            self.objs[eid] = obj
        return self.objs[eid]

    def same(self, exc, eid):
        if eid not in self.objs:
            obj = type(exc)()
            obj.eid = eid
            self.objs[eid] = obj
        return self.objs[eid]


def enc(exc):
    """canonical form of an exception object: injected ones by id+class(+cause), runtime/library ones by role"""
    if exc is None:
        return None
    eid = getattr(exc, "eid", None)
    kind = KIND_NAMES.get(type(exc), "?" + type(exc).__name__)
    if eid is not None:
        if exc.__cause__ is not None:
            return ["from", eid, kind, enc(exc.__cause__)]
        return ["user", eid, kind]
    msg = str(exc)
    if type(exc) is RuntimeError:
        if exc.__cause__ is not None and msg.startswith("async generator raised"):
            return ["promoted", enc(exc.__cause__)]
        if "ignored GeneratorExit" in msg:
            return ["lib", "ignoredGE"]
        if "yield" in msg and "stop" not in msg:
            return ["lib", "didNotYield"]
        if "stop" in msg and "throw" in msg:
            return ["lib", "didNotStopAfterThrow"]
        if "stop" in msg:
            return ["lib", "didNotStop"]
        return ["lib", "RuntimeError"]
    if type(exc) is GeneratorExit:
        return ["lib", "closeGE"]
    if type(exc) is StopAsyncIteration:
        return ["lib", "stopAsync"]
    return ["other", type(exc).__name__, msg[:80]]


class GenProxy:
    """stands in for the async generator object: logs every operation and its result"""

    def __init__(self, gen, ops):
        self._gen, self._ops = gen, ops

    def __aiter__(self):
        return self

    async def _do(self, rec, aw):
        self._ops.append(rec)
        try:
            val = await aw
        except BaseException as exc:  # noqa: B036
            rec["res"] = ["raise", enc(exc)]
            raise
        rec["res"] = ["value", val]
        return val

    def __anext__(self):
        return self._do({"op": "anext"}, self._gen.__anext__())

    def asend(self, value):
        return self._do({"op": "asend"}, self._gen.asend(value))

    def athrow(self, *args):
        arg = args[0] if len(args) == 1 else (args[1] if len(args) > 1 and args[1] is not None else args[0])
        rec = {"op": "athrow", "arg": enc(arg) if isinstance(arg, BaseException) else ["type", getattr(arg, "__name__", repr(arg))],
               "nargs": len(args), "_obj": arg}
        return self._do(rec, self._gen.athrow(*args))

    def aclose(self):
        return self._do({"op": "aclose"}, self._gen.aclose())


# ---------------------------------------------------------------------------------------------
# programs -> literal generator source


def _raise(spec, suffix=""):
    return "raise X(%r)%s" % (spec, suffix)


def _action(act, ind):
    t = act[0]
    if t == "swallow":
        return [ind + "pass"]
    if t == "reraise":
        return [ind + "raise"]
    if t == "new":
        return [ind + _raise(act[1], " from None" if len(act) > 2 and act[2] else "")]
    if t == "from":
        return [ind + _raise(["user", act[1], act[2]], " from exc")]
    if t == "sametype":
        return [ind + "raise X.same(exc, %d)" % act[1]]
    if t == "return":
        return [ind + "return"]
    if t == "yield":
        return [ind + "yield %d" % act[1]]
    raise ValueError(act)


CATCH = {"all": "BaseException", "exception": "Exception", "genexit": "GeneratorExit"}


def source(prog, susp):
    """the text of the generator function for `prog`; S(n) suspends `susp` times"""
    out = ["async def gen(L, X, S):", "    L('start')"]
    if susp:
        out.append("    await S(0)")
    st, h, af = prog["start"], prog["handler"], prog["after"]
    if st[0] == "raise":
        out.append("    " + _raise(st[1]))
        out.append("    yield 0  # unreachable: makes this an async generator")
        return "\n".join(out)
    if st[0] == "noyield":
        out += ["    return", "    yield 0  # unreachable: makes this an async generator"]
        return "\n".join(out)
    if h[0] == "none":
        out.append("    yield %d" % st[1])
    elif h[0] == "finally":
        out += ["    try:", "        yield %d" % st[1], "    finally:", "        L('finally')"]
    else:
        out += ["    try:", "        yield %d" % st[1], "    except %s as exc:" % CATCH[h[1]], "        L('handler')"]
        if susp:
            out.append("        await S(1)")
        out += _action(h[2], "        ")
    out.append("    L('after')")
    if susp:
        out.append("    await S(2)")
    if af[0] == "raise":
        out.append("    " + _raise(af[1]))
    elif af[0] == "yield":
        g = af[2]
        if g[0] == "bare":
            out.append("    yield %d" % af[1])
        else:
            out += ["    try:", "        yield %d" % af[1]]
            if g[0] == "finraise":
                out += ["    finally:", "        " + _raise(g[1])]
            elif g[0] == "swyield":
                out += ["    except GeneratorExit:", "        yield %d" % g[1]]
            elif g[0] == "swstop":
                out += ["    except GeneratorExit:", "        pass"]
            else:
                raise ValueError(g)
    return "\n".join(out)


_COMPILED = {}
_PROGRAM_FILE = "<C13 program>"


def _quiet_unraisable(unraisable, _prev=sys.unraisablehook):
    """a program generator that ignored its close cannot be finished by hand (3.12 marks it closed);
    the garbage collector's attempt is expected to complain — only for our generated programs"""
    code = getattr(unraisable.object, "ag_code", None)
    if code is not None and code.co_filename == _PROGRAM_FILE:
        return
    _prev(unraisable)


sys.unraisablehook = _quiet_unraisable


def _genfunc(prog, susp):
    src = source(prog, susp)
    if src not in _COMPILED:
        ns = {}
        exec(compile(src, _PROGRAM_FILE, "exec"), ns)  # noqa: S102 - harness-generated text only
        _COMPILED[src] = ns["gen"]
    return _COMPILED[src], src


# ---------------------------------------------------------------------------------------------
# running one `async with` statement on the real code


async def _stmt(cm, block_exc, rec):
    # the outcome is recorded inside the coroutine: a StopIteration leaving a coroutine frame
    # would itself be replaced by the runtime (PEP 479)
    try:
        async with cm as x:
            rec["entered"] = x
            if block_exc is not None:
                raise block_exc
    except BaseException as exc:  # noqa: B036
        rec["exc"] = exc


_FACTORY_KW = {"func": 1, "self": 2, "args": 3, "kwds": 4, "gen": 5}


def _run_real(decorator, case):
    X = ExcFactory(case.get("variant"))
    glog, ops = [], []
    susp = case.get("susp", 0)
    genf, _ = _genfunc(case["prog"], susp)
    holder = {}

    async def suspend(n):
        for j in range(susp):
            await Susp(["g", n, j])

    def func(*args, **kwds):
        # the factory is called with positional and keyword arguments whose NAMES a wrapper is likely to use itself
        if args != ("pos",) or kwds != _FACTORY_KW:
            glog.append("BAD-FACTORY-ARGS %r %r" % (args, kwds))
        holder["gen"] = genf(glog.append, X, suspend)
        return GenProxy(holder["gen"], ops)

    block_exc = X(case["block"]) if case["block"] is not None else None
    rec = {}
    try:
        cm = decorator(func)("pos", **_FACTORY_KW)
    except BaseException as exc:  # noqa: B036 - decorating/creating must not fail
        return {"error": "creating the context manager failed: %r" % (exc,)}
    res = drive(_stmt(cm, block_exc, rec))
    if res.exc is not None:
        return {"error": "driving the statement failed: %r" % (res.exc,)}
    out_exc = rec.get("exc")
    if out_exc is None:
        final = ["normal"] if block_exc is None else ["suppressed"]
        same = None
    else:
        final = ["raises", enc(out_exc)]
        same = out_exc is block_exc
    outops = []
    for r in ops:
        o = {"op": r["op"], "res": r.get("res")}
        if r["op"] == "athrow":
            o["arg"] = r["arg"]
            o["same"] = r["_obj"] is block_exc
            o["nargs"] = r["nargs"]
        outops.append(o)
    gen = holder.get("gen")
    finished = gen is not None and gen.ag_frame is None
    for _ in range(3):          # dispose of a generator left suspended (quietly: nothing for the GC to report)
        if gen is None or gen.ag_frame is None:
            break
        drive(gen.aclose())
    return {
        "entered": rec.get("entered"),
        "final": final,
        "same_object": same,
        "ops": outops,
        "glog": glog,
        "gen_finished": finished,
        "tokens": len(res.tokens),
    }


def observe(case):
    _, src = _genfunc(case["prog"], case.get("susp", 0))
    return {
        "impl": _run_real(asyncstdlib.contextmanager, case),
        "std": _run_real(contextlib.asynccontextmanager, case),
        "source": src,
    }


def model_request(case):
    return {"m": "contextmanager", "prog": case["prog"], "block": case["block"]}


# ---------------------------------------------------------------------------------------------
# judging

_CM_ERRORS = ("didNotYield", "didNotStop", "didNotStopAfterThrow", "RuntimeError")


def coarse_exc(e):
    """the three 'generator did not ...' RuntimeErrors are one outcome; texts are not compared"""
    if e is not None and e[0] == "lib" and e[1] in _CM_ERRORS:
        return ["lib", "cmRuntimeError"]
    return e


def coarse_final(f):
    return [f[0], coarse_exc(f[1])] if f[0] == "raises" else f


def proj_ops(ops):
    """operations on the generator object, as the model names them"""
    out = []
    for o in ops:
        if o["op"] == "athrow":
            out.append(["athrow", o["arg"]])
        else:
            out.append([o["op"]])
    return out


def final_kind(obs):
    f = obs["final"]
    if f[0] != "raises":
        return f[0]
    if obs.get("same_object"):
        return "block-exception"
    e = f[1]
    if e[0] == "lib":
        return "lib-" + e[1]
    if e[0] == "promoted":
        return "promoted"
    return "other-exception"


def block_kind(case):
    b = case["block"]
    if b is None:
        return "normal"
    return b[2] + ("-from" if b[0] == "from" else "")


def _std_close_raised(std):
    return any(o["op"] == "aclose" and o["res"] and o["res"][0] == "raise" for o in std["ops"])


def oracle(case, obs):
    """the property on the real code: comparison with contextlib.asynccontextmanager, the
    exactly-one-wake-up rule, and the GeneratorExit clause"""
    issues = []
    impl, std = obs["impl"], obs["std"]
    if "error" in impl:
        return [Issue("oracle", impl, "contextmanager-creation-failed")]
    bk = block_kind(case)
    is_ge = case["block"] is not None and case["block"][2] == "GeneratorExit"
    ops = impl["ops"]
    # entering: exactly one __anext__, the yielded value is bound
    if not ops or ops[0]["op"] != "anext":
        issues.append(Issue("oracle", {"ops": ops}, "enter-without-anext"))
        return issues
    if impl["entered"] != std["entered"]:
        issues.append(Issue("oracle", {"impl": impl["entered"], "std": std["entered"]}, "entered-value-differs"))
    if impl["entered"] is None and impl["final"][0] != "raises":
        issues.append(Issue("oracle", {"impl": impl}, "not-entered-but-no-error"))
    if impl["entered"] is not None:
        wake = ops[1:]
        # exactly one wake-up; like CPython, the manager may then close a generator that yielded again
        if len(wake) == 2 and wake[0]["op"] != "aclose" and wake[0]["res"] and wake[0]["res"][0] == "value" \
                and wake[1]["op"] == "aclose":
            wake = wake[:1]
        if len(wake) != 1:
            issues.append(Issue("oracle", {"ops": ops}, "generator-woken-%d-times:%s" % (len(wake), bk)))
        else:
            w = wake[0]
            if case["block"] is None:
                if w["op"] not in ("anext", "asend"):
                    issues.append(Issue("oracle", {"ops": ops}, "normal-exit-not-resumed"))
            elif is_ge:
                if w["op"] != "aclose":
                    issues.append(Issue("oracle", {"ops": ops}, "genexit-generator-not-closed"))
            else:
                if w["op"] != "athrow":
                    issues.append(Issue("oracle", {"ops": ops}, "exception-not-thrown-into-generator:" + bk))
                elif not w["same"]:
                    issues.append(Issue("oracle", {"ops": ops}, "different-object-thrown-into-generator:" + bk))
    if issues:
        return issues
    if is_ge and impl["entered"] is not None:
        # the deliberate difference: closed, never suppressed, same object unless the close itself raised
        w = ops[1]
        if impl["final"][0] != "raises":
            issues.append(Issue("oracle", {"impl": impl}, "genexit-" + impl["final"][0]))
        elif w["res"] and w["res"][0] == "value":
            if not impl["same_object"]:
                issues.append(Issue("oracle", {"impl": impl}, "genexit-clean-close-but-other-exception"))
        elif w["res"] and w["res"][0] == "raise":
            if impl["final"][1] != w["res"][1]:
                issues.append(Issue("oracle", {"impl": impl}, "genexit-close-error-not-surfaced"))
        return issues
    # everything else: the same outcome as contextlib.asynccontextmanager
    fi, fs = coarse_final(impl["final"]), coarse_final(std["final"])
    if _std_close_raised(std):
        # outside the property's quantifier (second yield guarded against GeneratorExit): CPython's
        # extra aclose() raised.  asyncstdlib must still report the generator that did not stop.
        if fi != ["raises", ["lib", "cmRuntimeError"]] and fi != fs:
            issues.append(Issue("oracle", {"impl": impl, "std": std}, "did-not-stop-not-reported:" + bk))
        elif fi != fs:
            issues.append(Issue("drift", {"impl": impl["final"], "std": std["final"], "source": obs["source"]},
                                "unclosed-second-yield"))
        return issues
    if fi != fs or impl["same_object"] != std["same_object"]:
        issues.append(Issue("oracle", {"impl": impl, "std": std, "source": obs["source"]},
                            "outcome-differs-from-contextlib:%s:%s-vs-%s" % (bk, final_kind(impl), final_kind(std))))
    return issues


def _side(o):
    return {"entered": o["entered"], "final": coarse_final(o["final"]), "ops": proj_ops(o["ops"])}


def _wake_only(ops):
    """the projection for asyncstdlib: __anext__ + the single wake-up; closing a generator that did
    not stop (what CPython does) is outside it"""
    if len(ops) == 3 and ops[2] == ["aclose"] and ops[1] != ["aclose"]:
        return ops[:2]
    return ops


def _mside(m):
    return {"entered": m["entered"], "final": coarse_final(m["final"]), "ops": m["ops"]}


def judge(case, obs, model):
    issues = oracle(case, obs)
    impl, std = obs["impl"], obs["std"]
    if "error" in impl or "error" in std:
        if "error" in std:
            issues.append(Issue("B", std))
        return issues
    # diagnostics outside the projection
    if impl["final"] != std["final"] and coarse_final(impl["final"]) == coarse_final(std["final"]):
        pass  # message texts differ by design
    if impl["gen_finished"] != std["gen_finished"] and not any(i.tag == "unclosed-second-yield" for i in issues):
        issues.append(Issue("drift", {"impl_gen_finished": impl["gen_finished"], "std_gen_finished": std["gen_finished"],
                                      "final": impl["final"]}, "generator-left-suspended"))
    if model is None:
        return issues
    if "error" in model:
        issues.append(Issue("A", model))
        return issues
    real, mi_, ms_ = _side(impl), _mside(model["impl"]), _mside(model["std"])
    if real["ops"] != _wake_only(real["ops"]):
        issues.append(Issue("drift", {"ops": real["ops"]}, "extra-aclose-after-did-not-stop"))
        real["ops"] = _wake_only(real["ops"])
    ok_finals = [mi_["final"]] if model["clean"] else [mi_["final"], ms_["final"]]   # unclean: either library's behaviour
    if real["entered"] != mi_["entered"] or real["ops"] != mi_["ops"] or real["final"] not in ok_finals:
        issues.append(Issue("A", {"real": real, "model": mi_, "source": obs["source"]}))
    elif model["impl"]["final"] != impl["final"]:
        issues.append(Issue("drift", {"real": impl["final"], "model": model["impl"]["final"]}, "runtimeerror-text-category"))
    if _mside(model["std"]) != _side(std):
        issues.append(Issue("B", {"real": _side(std), "model": _mside(model["std"]), "source": obs["source"]}))
    # what the theorems say can never happen
    mi, ms = model["impl"], model["std"]
    if model["clean"] and not model["genexit"]:
        if mi["entered"] != ms["entered"] or mi["final"] != ms["final"]:
            issues.append(Issue("MS", {"impl": mi, "std": ms, "theorem": "C13_equals_asynccontextmanager_partial"}))
    if model["decl"] != model["implExit"]:
        issues.append(Issue("MS", {"decl": model["decl"], "implExit": model["implExit"], "theorem": "C13_outcome_table"}))
    if ms["ops"] != mi["ops"] and ms["ops"] != mi["ops"] + [["aclose"]] and not model["genexit"]:
        issues.append(Issue("MS", {"impl": mi, "std": ms, "theorem": "C13_operations_vs_asynccontextmanager"}))
    return issues


def features(case, obs):
    p = case["prog"]
    f = ["start=" + p["start"][0], "block=" + block_kind(case), "susp=%d" % case.get("susp", 0)]
    h = p["handler"]
    f.append("handler=" + (h[0] if h[0] != "handle" else "%s:%s" % (h[1], h[2][0])))
    a = p["after"]
    f.append("after=" + (a[0] if a[0] != "yield" else "yield:" + a[2][0]))
    if "error" not in obs["impl"]:
        f.append("final=" + final_kind(obs["impl"]))
        f.append("std-final=" + final_kind(obs["std"]))
        f.append("wakeup=" + ("-" if len(obs["impl"]["ops"]) < 2 else obs["impl"]["ops"][1]["op"]))
    return f


def nontrivial(case, obs):
    return "error" not in obs["impl"] and len(obs["impl"]["ops"]) >= 2


# ---------------------------------------------------------------------------------------------
# case generation

BLOCKS = [None] + [["user", BLOCK_ID, k] for k in KINDS] + [
    ["from", BLOCK_ID, "RuntimeError", ["user", 6, "StopIteration"]]]
STARTS_OTHER = [["noyield"]] + [["raise", ["user", 100, k]] for k in (
    "Exception", "StopIteration", "StopAsyncIteration", "RuntimeError", "GeneratorExit", "KeyboardInterrupt")]
ACTIONS = [
    ["swallow"], ["reraise"],
    ["new", ["user", 101, "Exception"], False], ["new", ["user", 101, "Exception"], True],
    ["new", ["user", 101, "RuntimeError"], False], ["new", ["user", 101, "StopAsyncIteration"], False],
    ["new", ["user", 101, "StopIteration"], True],
    ["from", 101, "RuntimeError"], ["from", 101, "Exception"],
    ["sametype", 103], ["return"], ["yield", 2],
]
HANDLERS = [["none"], ["finally"]] + [["handle", c, a] for c in ("all", "exception", "genexit") for a in ACTIONS]
AFTERS_BARE = [["stop"], ["yield", 3, ["bare"]]] + [["raise", ["user", 102, k]] for k in (
    "Exception", "StopAsyncIteration", "StopIteration", "RuntimeError")]
AFTERS_GUARDED = [
    ["yield", 3, ["finraise", ["user", 104, "Exception"]]], ["yield", 3, ["finraise", ["user", 104, "StopIteration"]]],
    ["yield", 3, ["swyield", 4]], ["yield", 3, ["swstop"]],
]

def _grid(susp, handlers, afters, blocks, starts_other):
    for h, a, b in itertools.product(handlers, afters, blocks):
        yield {"prog": {"start": ["yield", 1], "handler": h, "after": a}, "block": b, "susp": susp}
    for s in starts_other:
        for h, a, b in itertools.product(handlers[:3], afters[:2], blocks):
            yield {"prog": {"start": s, "handler": h, "after": a}, "block": b, "susp": susp}


def cases(tier, rng):
    full = AFTERS_BARE + AFTERS_GUARDED
    for variant in ("sub", "falsy"):
        for c in _grid(0, HANDLERS, AFTERS_BARE if tier == "quick" else full, BLOCKS, STARTS_OTHER):
            yield dict(c, variant=variant)
    yield from _grid(0, HANDLERS, full, BLOCKS, STARTS_OTHER)
    yield from _grid(1, HANDLERS, full, BLOCKS, STARTS_OTHER)
    if tier != "quick":
        yield from _grid(2, HANDLERS, full, BLOCKS, STARTS_OTHER)


def search_cases(broken_cases, rng):
    """neighbours of disagreeing cases (all blocks for the program, all programs for the block), then the whole grid"""
    for case in broken_cases:
        for b in BLOCKS:
            yield dict(case, block=b)
        for susp in (0, 1):
            yield dict(case, susp=susp)
    yield from _grid(0, HANDLERS, AFTERS_BARE, BLOCKS, STARTS_OTHER)
