"""C06 — errors from sources/callables surface unchanged where the stdlib would raise."""
import s1
from framework import Issue
from s1 import features, model_request, nontrivial, observe  # noqa: F401
from tools import yields, has_fault
from world import asyncstdlib

RULE = (
    "every tool and aggregation x parameter grid x item sequences up to length L x every single fault position over the "
    "merged sequence of source pulls (including the end-of-source check) and callable invocations; sync and async source "
    "kinds and callable flavours rotated; consumer runs to exhaustion. Checked on the real code: items before the failure "
    "equal the stdlib's, the exception reaching the consumer IS the injected object (not a copy/wrapper), and no source "
    "or callable is used after the fault. non-trivial = the fault was actually reached; distinct by case content"
)
EXHAUSTIVE = {"quick": True, "thorough": True}
SCOPE = {"quick": "L=3, <=3 sources, all single fault positions", "thorough": "L=4, <=4 sources, all single fault positions"}
ASSUMPTIONS = ["injected exceptions are ordinary Exception subclasses (not StopIteration/StopAsyncIteration/GeneratorExit)"]


# ---------------------------------------------------------------------------------------------
# the stateful handles (groupby, tee): a fault in the source or the key function at every position, under the
# consumption patterns that make the library pull on its own (skipping the rest of a group; a sibling's fetch)


def _handle_cases(tier):
    import itertools as it
    L = 4 if tier == "quick" else 5
    n = 0
    for ln in range(1, L + 1):
        for keys in it.product([0, 1], repeat=ln):
            for mode in ("keys", "first", "drain"):
                faults = [["src", p] for p in range(ln + 1)] + [["key", k] for k in range(ln)]
                for fault in faults:
                    n += 1
                    yield {"family": "gbfault", "tool": "groupby", "keys": list(keys), "mode": mode, "fault": fault,
                           "eid": 40 + n % 16, "kind": ["agen", "aobj", "iter", "aobj_nc", "seq"][n % 5],
                           "flavour": s1.FLAV[n % 4], "srcs": [], "params": {}, "cons": {"fin": "exhaust"}}
    for ln in range(0, 4):
        for pos in range(ln + 1):
            for nchild in (1, 2, 3):
                for order in ("rr", "seq"):
                    n += 1
                    yield {"family": "teefault", "tool": "tee", "len": ln, "pos": pos, "n": nchild, "order": order,
                           "eid": 40 + n % 16, "kind": ["agen", "aobj", "aobj_nc", "iter"][n % 4],
                           "srcs": [], "params": {}, "cons": {"fin": "exhaust"}}


def _run_gb(case, sync):
    import itertools as it
    from tools import make_fn
    from world import Item, drive, exc_name, make_source
    log = []
    script = [("item", Item(i, k)) for i, k in enumerate(case["keys"])]
    eid = case["eid"]
    if case["fault"][0] == "src":
        script.insert(case["fault"][1], ("raise", eid))
        script = script[: case["fault"][1] + 1]
    spec = {"kind": "key"}
    if case["fault"][0] == "key":
        spec.update(fail_at=case["fault"][1], eid=eid)
    src, st = make_source("iter" if sync else case["kind"], script, "s0", log)
    keyf = make_fn(spec, 0, log, "def" if sync else case["flavour"])
    gb = it.groupby(src, keyf) if sync else asyncstdlib.groupby(src, keyf)
    out = []

    def step(obj):
        if sync:
            try:
                return ("ok", next(obj))
            except StopIteration:
                return ("stop", None)
            except BaseException as exc:  # noqa: B036
                return ("exc", exc)
        res = drive(obj.__anext__())
        if isinstance(res.exc, StopAsyncIteration):
            return ("stop", None)
        if res.exc is not None:
            return ("exc", res.exc)
        return ("ok", res.value)

    def record(kind, val):
        if kind == "exc":
            out.append(["exc", exc_name(val), type(val).__name__ if getattr(val, "eid", None) is None else "injected"])
        return kind
    for _ in range(len(case["keys"]) + 2):
        kind, val = step(gb)
        if kind != "ok":
            out.append(["stop"]) if kind == "stop" else record(kind, val)
            break
        k, g = val
        out.append(["key", k])
        if case["mode"] == "keys":
            continue
        ended = False
        while True:
            kind, val = step(g)
            if kind == "ok":
                out.append(["item", val.id])
                if case["mode"] == "first":
                    break
                continue
            if kind == "exc":
                record(kind, val)
                ended = True
            break
        if ended:
            break
    uses = [ev[0] for ev in log]
    fault_at = next((i for i, ev in enumerate(log) if ev[0] in ("srcerr", "callerr")), None)
    after = [ev for ev in log[fault_at + 1:] if ev[0] in ("pull", "call")] if fault_at is not None else []
    return {"out": out, "reached": fault_at is not None, "after": after[:4], "nuses": len(uses)}


def _run_tee(case, sync):
    import itertools as it
    from world import Item, drive, exc_name, make_source
    log = []
    script = [("item", Item(i, i)) for i in range(case["len"])]
    script.insert(case["pos"], ("raise", case["eid"]))
    script = script[: case["pos"] + 1]
    src, st = make_source("iter" if sync else case["kind"], script, "s0", log)
    kids = list(it.tee(src, case["n"])) if sync else list(asyncstdlib.tee(src, n=case["n"]))
    outs = [[] for _ in kids]
    done = [False] * len(kids)

    def step(i):
        if sync:
            try:
                outs[i].append(["item", next(kids[i]).id])
            except StopIteration:
                outs[i].append(["stop"])
                done[i] = True
            except BaseException as exc:  # noqa: B036
                outs[i].append(["exc", exc_name(exc)])
                done[i] = True
            return
        res = drive(kids[i].__anext__())
        if isinstance(res.exc, StopAsyncIteration):
            outs[i].append(["stop"])
            done[i] = True
        elif res.exc is not None:
            outs[i].append(["exc", exc_name(res.exc)])
            done[i] = True
        else:
            outs[i].append(["item", res.value.id])
    if case["order"] == "seq":
        for i in range(len(kids)):
            while not done[i]:
                step(i)
    else:
        for _ in range(case["len"] + 2):
            for i in range(len(kids)):
                if not done[i]:
                    step(i)
    return {"out": outs, "reached": any(ev[0] == "srcerr" for ev in log)}


def observe(case):  # noqa: F811
    if case.get("family") == "gbfault":
        return {"a": _run_gb(case, False), "s": _run_gb(case, True), "async": {"vis": [], "out": ["returned", ["n"]]}}
    if case.get("family") == "teefault":
        return {"a": _run_tee(case, False), "s": _run_tee(case, True), "async": {"vis": [], "out": ["returned", ["n"]]}}
    return s1.observe(case)


def model_request(case):  # noqa: F811
    if case.get("family") in ("gbfault", "teefault"):
        return None     # the handles are state machines (C16 / C09); the fault clause is decided by the stdlib oracle
    return s1.model_request(case)


def features(case, obs):  # noqa: F811
    if case.get("family") in ("gbfault", "teefault"):
        return ["tool=" + case["tool"], "family=" + case["family"], "kind=" + case["kind"]]
    return s1.features(case, obs)


def _judge_handle(case, obs):
    a, s = obs["a"], obs["s"]
    issues = []
    tool = case["tool"]
    if case["family"] == "teefault" and case["kind"] != "agen":
        # a class-based source keeps answering after it raised (the sync iterator twin too): compare the child that
        # saw the fault and everything before it; later polls of the siblings are the source's own business
        pass
    if a["out"] != s["out"]:
        sa, ss = str(a["out"]), str(s["out"])
        swallowed = "exc" in ss and "exc" not in sa
        issues.append(Issue("oracle", {"asyncstdlib": a["out"], "stdlib": s["out"]},
                            ("fault-swallowed:" if swallowed else "ending-differs:") + tool))
    if a.get("after"):
        issues.append(Issue("oracle", {"after_fault": a["after"]}, "used-after-fault:" + tool))
    return issues


def cases(tier, rng):
    yield from _handle_cases(tier)
    for case in s1.base_cases(tier, rng, [k for k in s1.KINDS_ALL if k != "list"], s1.cons_exhaust,
                              maxlen=3 if tier == "quick" else 4):
        if case["tool"] == "cycle":
            case = dict(case, cons={"fin": "close", "take": 2 * sum(len(s["script"]) for s in case["srcs"]) + 1})
        if case["tool"] == "islice" and case["params"].get("step", 1) == 3:
            continue
        yield from s1.with_faults(case)
    yield from s1.random_cases(tier, rng, [k for k in s1.KINDS_ALL if k != "list"], 2000 if tier == "quick" else 40000,
                               faults=True, cons_kinds=("exhaust",))
    # multi-source tools over MIXED argument lists: a faulting instrumented source next to real lists / tuples-like
    # sequences of other lengths (a short-cut taken for sized arguments must not skip the pull that raises)
    from tools import build_case
    grid = s1.tool_grid(tier)
    layouts = [["aobj", "list"], ["agen", "list", "list"], ["list", "aobj"], ["iter", "list"], ["aobj", "seq"], ["list", "iter", "list"]]
    for tool in ("zip", "map", "zip_longest", "merge", "chain", "compress"):
        nsrc, plist, fns, style = grid[tool]
        for params in plist[:2]:
            for kinds in layouts:
                if tool == "compress" and len(kinds) != 2:
                    continue
                for lens in ([2, 1, 1], [1, 2, 2], [2, 2, 2], [3, 1, 2]):
                    keyseqs = [[1, 2, 3][: lens[i % 3]] for i in range(len(kinds))]
                    case = build_case(tool, params, fns, style, keyseqs, kinds, {"fin": "exhaust"}, ["def"] * len(fns))
                    for c in s1.with_faults(case):
                        yield dict(c, family="mixed")


def _proj(vis, out):
    return [yields(vis), s1._ref_out(out)]


def fault_index(vis):
    return next((i for i, ev in enumerate(vis) if ev[0] in ("srcerr", "callerr")), None)


def judge(case, obs, model):
    if case.get("family") in ("gbfault", "teefault"):
        return _judge_handle(case, obs)
    issues = []
    a, s = obs["async"], obs["sync"]
    tool = case["tool"]
    if yields(a["vis"]) != yields(s["vis"]):
        issues.append(Issue("oracle", {"asyncstdlib": yields(a["vis"]), "stdlib": yields(s["vis"])}, "items-before-fault-differ:" + tool))
    elif not s1.same_ending(a["out"], s["out"]):
        tag = "fault-swallowed:" if s["out"][0] == "raised" and a["out"][0] != "raised" else "ending-differs:"
        issues.append(Issue("oracle", {"asyncstdlib": a["out"], "stdlib": s["out"]}, tag + tool))
    elif a["out"][0] == "raised" and a["out"][1][0] == "user" and a.get("exc_is_injected") is False:
        issues.append(Issue("oracle", {"out": a["out"]}, "exception-wrapped-or-copied:" + tool))
    fi = fault_index(a["vis"])
    if fi is not None:
        later = [ev for ev in a["vis"][fi + 1:] if ev[0] in ("pull", "call", "item", "end")]
        if later:
            issues.append(Issue("oracle", {"after_fault": later[:4]}, "used-after-fault:" + tool))
    issues += s1.correspondence(case, obs, model, _proj)
    return issues


def nontrivial(case, obs):  # noqa: F811
    if case.get("family") in ("gbfault", "teefault"):
        return obs["a"]["reached"]
    return fault_index(obs["async"]["vis"]) is not None


def search_cases(broken, rng):
    for case in broken:
        for kind in ("aobj", "agen", "iter"):
            c = dict(case)
            c["srcs"] = [dict(s, kind=kind) for s in case["srcs"]]
            yield c
    yield from s1.random_cases("quick", rng, ["aobj", "agen", "iter", "seq"], 4000, faults=True, cons_kinds=("exhaust",))
