"""C06 — errors from sources/callables surface unchanged where the stdlib would raise."""
import s1
from framework import Issue
from s1 import features, model_request, nontrivial, observe  # noqa: F401
from tools import yields, has_fault

RULE = (
    "every tool and aggregation x parameter grid x item sequences up to length L x every single fault position over the "
    "merged sequence of source pulls (including the end-of-source check) and callable invocations; sync and async source "
    "kinds and callable flavours rotated; consumer runs to exhaustion. Checked on the real code: items before the failure "
    "equal the stdlib's, the exception reaching the consumer IS the injected object (not a copy/wrapper), and no source "
    "or callable is used after the fault. non-trivial = the fault was actually reached; distinct by case content"
)
EXHAUSTIVE = {"quick": True, "thorough": True}
SCOPE = {"quick": "L=3, <=3 sources, all single fault positions", "thorough": "L=4, <=4 sources, all single fault positions"}
ASSUMPTIONS = ["injected exceptions are ordinary Exception subclasses (not StopIteration/StopAsyncIteration/GeneratorExit)"]


def cases(tier, rng):
    for case in s1.base_cases(tier, rng, [k for k in s1.KINDS_ALL if k != "list"], s1.cons_exhaust,
                              maxlen=3 if tier == "quick" else 4):
        if case["tool"] == "cycle":
            case = dict(case, cons={"fin": "close", "take": 2 * sum(len(s["script"]) for s in case["srcs"]) + 1})
        if case["tool"] == "islice" and case["params"].get("step", 1) == 3:
            continue
        yield from s1.with_faults(case)
    yield from s1.random_cases(tier, rng, [k for k in s1.KINDS_ALL if k != "list"], 2000 if tier == "quick" else 40000,
                               faults=True, cons_kinds=("exhaust",))


def _proj(vis, out):
    return [yields(vis), s1._ref_out(out)]


def fault_index(vis):
    return next((i for i, ev in enumerate(vis) if ev[0] in ("srcerr", "callerr")), None)


def judge(case, obs, model):
    issues = []
    a, s = obs["async"], obs["sync"]
    tool = case["tool"]
    if yields(a["vis"]) != yields(s["vis"]):
        issues.append(Issue("oracle", {"asyncstdlib": yields(a["vis"]), "stdlib": yields(s["vis"])}, "items-before-fault-differ:" + tool))
    elif not s1.same_ending(a["out"], s["out"]):
        tag = "fault-swallowed:" if s["out"][0] == "raised" and a["out"][0] != "raised" else "ending-differs:"
        issues.append(Issue("oracle", {"asyncstdlib": a["out"], "stdlib": s["out"]}, tag + tool))
    elif a["out"][0] == "raised" and a["out"][1][0] == "user" and a.get("exc_is_injected") is False:
        issues.append(Issue("oracle", {"out": a["out"]}, "exception-wrapped-or-copied:" + tool))
    fi = fault_index(a["vis"])
    if fi is not None:
        later = [ev for ev in a["vis"][fi + 1:] if ev[0] in ("pull", "call", "item", "end")]
        if later:
            issues.append(Issue("oracle", {"after_fault": later[:4]}, "used-after-fault:" + tool))
    issues += s1.correspondence(case, obs, model, _proj)
    return issues


def nontrivial(case, obs):  # noqa: F811
    return fault_index(obs["async"]["vis"]) is not None


def search_cases(broken, rng):
    for case in broken:
        for kind in ("aobj", "agen", "iter"):
            c = dict(case)
            c["srcs"] = [dict(s, kind=kind) for s in case["srcs"]]
            yield c
    yield from s1.random_cases("quick", rng, ["aobj", "agen", "iter", "seq"], 4000, faults=True, cons_kinds=("exhaust",))
