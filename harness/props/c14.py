"""C14 — ExitStack unwinds like nested async-with; each exit runs exactly once."""
import contextlib
import itertools

from framework import Issue
import fam_enter_susp as _enter_susp
from world import UserBaseExc, UserExc, drive, exc_name, asyncstdlib

RULE = (
    "unwind cases: every stack of 0..N entries over the behaviour grid {no exception-> falsy|truthy|raise new|raise the block's "
    "exception object} x {exception-> falsy|truthy|raise new|re-raise it|raise the block's exception object} "
    "with entry kinds (async CM, sync CM, pushed CM, pushed async/sync exit callable, sync/async callback with args) "
    "cycled/randomised, x block outcome {normal, raises}; history cases: random op sequences over "
    "{register, enter fails, leave block, aclose, pop_all} on up to 3 stacks. "
    "non-trivial = at least one exit ran; distinct by case content"
)
EXHAUSTIVE = {"quick": True, "thorough": True}
SCOPE = {"quick": "behaviour grid exhaustive for stacks of 0..3 entries (kinds sampled); histories random",
         "thorough": "behaviour grid exhaustive for stacks of 0..4 entries (kinds sampled); histories random"}
ASSUMPTIONS = [
    "__context__/__traceback__ stitching is not compared",
    "exits that pop_all / push / callback on their own stack while it unwinds are modelled by Machines/ExitStackReentrant.lean (family reentrant)",
    "exception identity is compared through the injected id carried by the object (objects interned per run); odd ids are BaseException subclasses (cancellation-like)",
]
# pushed exit callables / callbacks also in the awaitable-returning flavours that are NOT coroutine functions:
# "..o" object with `async def __call__`, "..r" object whose plain `__call__` returns a coroutine, "..l" lambda forwarding
# to an async function, "..p" functools.partial of an async function
KINDS = ["acm", "scm", "pcm", "pscm", "pa", "ps", "cb", "acb", "pao", "par", "pal", "pap", "acbo", "acbr", "acbl", "acbp"]
CB_KINDS = ("cb", "acb", "acbo", "acbr", "acbl", "acbp")


def _flavoured(afn, fl):
    """the async function `afn` as another awaitable-returning callable flavour"""
    import functools
    if fl == "o":
        class AsyncCallObj:
            async def __call__(self, *a, **k):
                return await afn(*a, **k)
        return AsyncCallObj()
    if fl == "r":
        class CoroReturningObj:
            def __call__(self, *a, **k):
                return afn(*a, **k)
        return CoroReturningObj()
    if fl == "l":
        return lambda *a, **k: afn(*a, **k)
    if fl == "p":
        async def tagged(_tag, *a, **k):
            return await afn(*a, **k)
        return functools.partial(tagged, "tag")
    raise ValueError(fl)
BODY_EXC = 5


_EXCS = {}


def _exc(eid):
    """exception objects are interned by id within one run: the same id is the same object,
    so a handler raising id 5 raises the very object the block raised (the model identifies
    exception objects with their ids)"""
    if eid not in _EXCS:
        # odd ids are BaseException subclasses (cancellation-like), even ids ordinary Exceptions
        _EXCS[eid] = UserBaseExc(eid) if eid % 2 else UserExc(eid)
    return _EXCS[eid]


def _resp(code, log, eid, exc):
    """React as the behaviour code says; `exc` is the exception handed in (or None)."""
    if code == "T":
        return True
    if code == "S" and exc is not None:
        raise exc
    if code.startswith("R"):
        raise _exc(int(code[1:]))
    return False


class _Entry:
    def __init__(self, eid, spec, log):
        self.eid, self.spec, self.log = eid, spec, log

    def react(self, exc):
        self.log.append([self.eid, getattr(exc, "eid", None) if exc is not None else None])
        return _resp(self.spec["some"] if exc is not None else self.spec["none"], self.log, self.eid, exc)

    def react_cb(self, args, kwargs):
        if args != (self.eid, "a") or kwargs != {"k": self.eid}:
            self.log.append([self.eid, "BAD-ARGS"])
        else:
            self.log.append([self.eid, None])
        _resp(self.spec["none"], self.log, self.eid, None)
        return True  # a callback's return value must be ignored


class ACM:
    def __init__(self, entry, enter_fail=None):
        self.entry, self.enter_fail = entry, enter_fail

    async def __aenter__(self):
        if self.enter_fail is not None:
            raise _exc(self.enter_fail)
        return self

    async def __aexit__(self, et, ev, tb):
        return self.entry.react(ev)


class SCM:
    def __init__(self, entry, enter_fail=None):
        self.entry, self.enter_fail = entry, enter_fail

    def __enter__(self):
        if self.enter_fail is not None:
            raise _exc(self.enter_fail)
        return self

    def __exit__(self, et, ev, tb):
        return self.entry.react(ev)


class CbCM:
    """the nested-with equivalent of a registered callback: runs it, never suppresses"""

    def __init__(self, entry):
        self.entry = entry

    async def __aenter__(self):
        return self

    async def __aexit__(self, et, ev, tb):
        self.entry.react_cb((self.entry.eid, "a"), {"k": self.entry.eid})
        return False


async def _register(stack, entry, kind, std=False):
    """register on a real stack (asyncstdlib.ExitStack, or contextlib.AsyncExitStack if std)"""
    if kind == "acm":
        if std:
            await stack.enter_async_context(ACM(entry))
        else:
            await stack.enter_context(ACM(entry))
    elif kind == "scm":
        stack.enter_context(SCM(entry)) if std else await stack.enter_context(SCM(entry))
    elif kind == "pcm":
        stack.push_async_exit(ACM(entry)) if std else stack.push(ACM(entry))
    elif kind == "pscm":
        stack.push(SCM(entry))      # a synchronous context manager object pushed without entering it: its __exit__ is the exit
    elif kind == "pa":
        async def aexit(et, ev, tb):
            return entry.react(ev)
        stack.push_async_exit(aexit) if std else stack.push(aexit)
    elif kind in ("pao", "par", "pal", "pap"):
        async def aexit2(et, ev, tb):
            return entry.react(ev)
        h = _flavoured(aexit2, kind[-1])
        stack.push_async_exit(h) if std else stack.push(h)
    elif kind == "ps":
        def sexit(et, ev, tb):
            return entry.react(ev)
        stack.push(sexit)
    elif kind == "cb":
        def cb(*a, **k):
            return entry.react_cb(a, k)
        stack.callback(cb, entry.eid, "a", k=entry.eid)
    elif kind == "acb":
        async def acb(*a, **k):
            return entry.react_cb(a, k)
        if std:
            stack.push_async_callback(acb, entry.eid, "a", k=entry.eid)
        else:
            stack.callback(acb, entry.eid, "a", k=entry.eid)
    elif kind in ("acbo", "acbr", "acbl", "acbp"):
        async def acb2(*a, **k):
            return entry.react_cb(a, k)
        h = _flavoured(acb2, kind[-1])
        if std:
            stack.push_async_callback(h, entry.eid, "a", k=entry.eid)
        else:
            stack.callback(h, entry.eid, "a", k=entry.eid)
    else:
        raise ValueError(kind)


def _as_cm(entry, kind):
    if kind in CB_KINDS:
        return CbCM(entry)
    return ACM(entry)


async def _nested(cms, body):
    if not cms:
        if body is not None:
            raise _exc(body)
        return
    async with cms[0]:
        await _nested(cms[1:], body)


async def _with_stack(stack, entries, kinds, body, std):
    async with stack:
        for e, k in zip(entries, kinds):
            await _register(stack, e, k, std)
        if body is not None:
            raise _exc(body)


def _run(coro):
    res = drive(coro)
    if res.exc is not None:
        res.exc.__traceback__ = None
        res.exc.__context__ = None
    return getattr(res.exc, "eid", None) if isinstance(res.exc, (UserExc, UserBaseExc)) else exc_name(res.exc)


def _observe_unwind(case):
    out = {}
    specs = case["entries"]
    ids = case["stack"]
    for name in ("impl", "nested", "std"):
        _EXCS.clear()   # fresh exception objects for every run: no __context__ chains carried over
        log = []
        entries = [_Entry(i, specs[str(i)], log) for i in ids]
        kinds = [specs[str(i)]["k"] for i in ids]
        if name == "impl":
            res = _run(_with_stack(asyncstdlib.ExitStack(), entries, kinds, case["body"], False))
        elif name == "std":
            res = _run(_with_stack(contextlib.AsyncExitStack(), entries, kinds, case["body"], True))
        else:
            res = _run(_nested([_as_cm(e, k) for e, k in zip(entries, kinds)], case["body"]))
        out[name] = {"out": res, "log": log}
    return out


async def _leave(stack, body):
    async with stack:
        if body is not None:
            raise _exc(body)


def _observe_history(case, std=False):
    specs = case["entries"]
    log, outs = [], []
    _EXCS.clear()
    new = contextlib.AsyncExitStack if std else asyncstdlib.ExitStack
    stacks = [new()]
    for op in case["ops"]:
        tag, sid = op[0], op[1]
        _EXCS.clear()   # fresh exception objects for every operation
        if sid >= len(stacks):
            continue
        stack = stacks[sid]
        if tag == "reg":
            entry = _Entry(op[2], specs[str(op[2])], log)
            drive(_register(stack, entry, specs[str(op[2])]["k"], std))
        elif tag == "enterfail":
            entry = _Entry(op[2], specs[str(op[2])], log)
            kind = specs[str(op[2])]["k"]
            cm = ACM(entry, op[3]) if kind == "acm" else SCM(entry, op[3])
            if std:
                if kind == "acm":
                    res = drive(stack.enter_async_context(cm))
                else:
                    try:
                        stack.enter_context(cm)
                        res = None
                    except (UserExc, UserBaseExc) as exc:
                        res = type("R", (), {"exc": exc})
            else:
                res = drive(stack.enter_context(cm))
            if res is None or getattr(res.exc, "eid", None) != op[3]:
                log.append([op[2], "ENTER-DID-NOT-FAIL"])
        elif tag == "leave":
            outs.append(_run(_leave(stack, op[2])))
        elif tag == "aclose":
            outs.append(_run(stack.aclose()))
        elif tag == "popall":
            stacks.append(stack.pop_all())
    return {"outs": outs, "log": log}


# ---- exits that touch their own stack while it unwinds (pop_all / push from inside an exit) -------------------------------
# outside the Lean machine ("exits do not register further exits while the stack unwinds"): decided against
# contextlib.AsyncExitStack, which defines what "moved by pop_all" / "registered late" mean during an unwind


def _enterreg_cases():
    """an async / sync context manager whose enter REGISTERS something on the very stack it is being entered on (a
    sub-resource's release) and then fails or succeeds; also another registration made while the enter is suspended"""
    for n in (0, 1, 2):
        for cmkind in ("acm", "scm"):
            for fails in (True, False):
                for reg in ("callback", "push", "none"):
                    for body in (None, BODY_EXC):
                        yield {"kind": "reentrant", "n": n, "at": -1, "act": "enter-" + reg, "cm": cmkind, "fails": fails,
                               "body": body, "beh": "F", "entries": {}}


def _run_enterreg(case, std):
    _EXCS.clear()
    log = []
    new = contextlib.AsyncExitStack if std else asyncstdlib.ExitStack
    stack = new()

    def mkexit(i):
        async def ex(et, ev, tb):
            log.append(["exit", i, getattr(ev, "eid", None) if ev is not None else None])
            return False
        return ex

    def register_sub():
        reg = case["act"][6:]
        if reg == "callback":
            def late(*a):
                log.append(["late-callback", list(a)])
            stack.callback(late, 77)
        elif reg == "push":
            (stack.push_async_exit if std else stack.push)(mkexit(50))

    class ACMx:
        async def __aenter__(self):
            log.append(["enter"])
            register_sub()
            if case["fails"]:
                raise _exc(301)
            return self

        async def __aexit__(self, et, ev, tb):
            log.append(["cm-exit", getattr(ev, "eid", None) if ev is not None else None])
            return False

    class SCMx:
        def __enter__(self):
            log.append(["enter"])
            register_sub()
            if case["fails"]:
                raise _exc(301)
            return self

        def __exit__(self, et, ev, tb):
            log.append(["cm-exit", getattr(ev, "eid", None) if ev is not None else None])
            return False

    async def main():
        for i in range(case["n"]):
            (stack.push_async_exit if std else stack.push)(mkexit(i))
        try:
            async with stack:
                try:
                    if case["cm"] == "acm":
                        await (stack.enter_async_context(ACMx()) if std else stack.enter_context(ACMx()))
                    else:
                        r = stack.enter_context(SCMx())
                        if not std:
                            await r
                except (UserExc, UserBaseExc) as exc:
                    log.append(["enter-raised", exc.eid])
                if case["body"] is not None:
                    raise _exc(case["body"])
        except (UserExc, UserBaseExc) as exc:
            log.append(["block-raised", exc.eid])
        log.append(["after-block"])
        try:
            await stack.aclose()
        except (UserExc, UserBaseExc) as exc:
            log.append(["again-raised", exc.eid])
    res = _run(main())
    return {"out": res, "log": log}


def _reentrant_cases():
    yield from _enterreg_cases()
    for n in (1, 2, 3, 4):
        for k in range(n):
            for act in ("popall", "push", "callback"):
                for body in (None, BODY_EXC):
                    for beh in ("F", "T", "R"):
                        yield {"kind": "reentrant", "n": n, "at": k, "act": act, "body": body, "beh": beh, "entries": {}}


def _run_reentrant(case, std):
    _EXCS.clear()
    log = []
    new = contextlib.AsyncExitStack if std else asyncstdlib.ExitStack
    stack = new()
    moved = []

    def mk(i):
        async def ex(et, ev, tb):
            log.append(["exit", i, getattr(ev, "eid", None) if ev is not None else None])
            if i == case["at"]:
                if case["act"] == "popall":
                    moved.append(stack.pop_all())
                elif case["act"] == "push":
                    (stack.push_async_exit if std else stack.push)(mk(100 + i))
                else:
                    def late(*a):
                        log.append(["late-callback", i, list(a)])
                    stack.callback(late, i)
                if case["beh"] == "T":
                    return True
                if case["beh"] == "R":
                    raise _exc(400 + i)
            return False
        return ex

    async def main():
        for i in range(case["n"]):
            (stack.push_async_exit if std else stack.push)(mk(i))
        try:
            async with stack:
                if case["body"] is not None:
                    raise _exc(case["body"])
        except (UserExc, UserBaseExc) as exc:
            log.append(["block-raised", exc.eid])
        log.append(["after-block"])
        for m in moved:
            try:
                await m.aclose()
            except (UserExc, UserBaseExc) as exc:
                log.append(["moved-raised", exc.eid])
        log.append(["after-moved"])
        try:
            await stack.aclose()
        except (UserExc, UserBaseExc) as exc:
            log.append(["again-raised", exc.eid])
    res = _run(main())
    return {"out": res, "log": log}


def _run_aclose_in_except(case, std):
    """`aclose()` called while an unrelated exception is being handled (close, then re-raise) or from a `finally`: the exits
    are told that the block ended normally - (None, None, None) - exactly like `async with stack: pass` placed there"""
    log = []

    class M:
        async def __aenter__(self):
            return self

        async def __aexit__(self, t, v, tb):
            log.append(["exit-cm", None if v is None else type(v).__name__])
            return False

    async def pushed(t, v, tb):
        log.append(["exit-pushed", None if v is None else type(v).__name__])
        return False

    async def cb():
        log.append(["callback"])

    async def main():
        st = contextlib.AsyncExitStack() if std else asyncstdlib.ExitStack()
        if std:
            await st.enter_async_context(M())
            st.push_async_exit(pushed)
            st.push_async_callback(cb)
        else:
            await st.enter_context(M())
            st.push(pushed)
            st.callback(cb)
        if case["where"] == "except":
            try:
                raise KeyError("being handled")
            except KeyError:
                await st.aclose()
        else:
            try:
                try:
                    raise KeyError("propagating")
                finally:
                    await st.aclose()
            except KeyError:
                pass
    res = drive(main())
    return {"log": log, "exc": exc_name(res.exc)}


def observe(case):
    if case["kind"] == "acloseexc":
        return {"impl": _run_aclose_in_except(case, False), "std": _run_aclose_in_except(case, True)}
    if case["kind"] == "entersusp":
        return _enter_susp.observe(case)
    if case["kind"] == "reentrant" and case["act"].startswith("enter-"):
        return {"impl": _run_enterreg(case, False), "std": _run_enterreg(case, True)}
    if case["kind"] == "reentrant":
        return {"impl": _run_reentrant(case, False), "std": _run_reentrant(case, True)}
    if case["kind"] == "unwind":
        return _observe_unwind(case)
    return {"impl": _observe_history(case), "std": _observe_history(case, std=True)}


def model_request(case):
    if case["kind"] == "acloseexc":
        return None
    if case["kind"] == "entersusp":
        return _enter_susp.model_request(case)
    if case["kind"] == "reentrant" and case["act"].startswith("enter-"):
        return None      # a context manager whose enter registers on the stack: decided against contextlib alone
    if case["kind"] == "reentrant":
        # Machines/ExitStackReentrant.lean: both libraries' unwind loops over deques that exits may pop_all / push onto
        return {"m": "exitstackre", "n": case["n"], "at": case["at"], "act": case["act"], "beh": case["beh"], "body": case["body"]}
    ents = {k: {"cb": v["k"] in CB_KINDS, "none": v["none"], "some": v["some"]}
            for k, v in case["entries"].items()}
    if case["kind"] == "unwind":
        return {"m": "exitstack", "mode": "unwind", "entries": ents, "stack": case["stack"], "body": case["body"]}
    return {"m": "exitstack", "mode": "history", "entries": ents, "ops": case["ops"]}


def judge(case, obs, model):
    issues = []
    if case["kind"] == "acloseexc":
        want = [["callback"], ["exit-pushed", None], ["exit-cm", None]]
        if obs["impl"]["log"] != want or obs["impl"] != obs["std"]:
            issues.append(Issue("oracle", {"asyncstdlib": obs["impl"], "contextlib": obs["std"]}, "aclose-hands-exits-the-exception-being-handled"))
        return issues
    if case["kind"] == "entersusp":
        return _enter_susp.judge(case, obs, model)
    if case["kind"] == "reentrant":
        if obs["impl"] != obs["std"]:
            issues.append(Issue("oracle", {"asyncstdlib": obs["impl"], "contextlib": obs["std"]},
                                "differs-from-contextlib-when-an-exit-touches-its-stack:" + case["act"]))
        if model is not None:
            if "error" in model:
                issues.append(Issue("A", model))
            else:
                if model["impl"] != obs["impl"]:
                    issues.append(Issue("A", {"asyncstdlib": obs["impl"], "model": model["impl"]}))
                if model["spec"] != obs["std"]:
                    issues.append(Issue("B", {"contextlib": obs["std"], "spec": model["spec"]}))
                if model["impl"] != model["spec"]:
                    issues.append(Issue("MS", model))
        return issues
    impl = obs["impl"]
    if case["kind"] == "unwind":
        for ref in ("nested", "std"):
            if impl != obs[ref]:
                tag = "unwind-differs-from-" + ref
                issues.append(Issue("oracle", {"impl": impl, ref: obs[ref]}, tag))
                break
        if model is not None:
            if "error" in model:
                issues.append(Issue("A", model))
            else:
                if model["impl"] != impl:
                    issues.append(Issue("A", {"impl": impl, "model": model["impl"]}))
                if model["spec"] != obs["nested"]:
                    issues.append(Issue("B", {"nested": obs["nested"], "spec": model["spec"]}))
                if model["impl"] != model["spec"]:
                    issues.append(Issue("MS", model))
    else:
        ran = [i for i, _ in impl["log"]]
        for i in set(ran):
            if ran.count(i) > 1:
                issues.append(Issue("oracle", {"entry": i, "runs": ran.count(i), "log": impl["log"]}, "exit-ran-twice"))
                break
        failed = {op[2] for op in case["ops"] if op[0] == "enterfail"}
        if failed & set(ran):
            issues.append(Issue("oracle", {"log": impl["log"]}, "failed-enter-exited"))
        if any(e in ("BAD-ARGS", "ENTER-DID-NOT-FAIL") for _, e in impl["log"]):
            issues.append(Issue("oracle", {"log": impl["log"]}, "callback-args"))
        if not issues and impl != obs["std"]:
            issues.append(Issue("oracle", {"impl": impl, "std": obs["std"]}, "history-differs-from-contextlib"))
        if model is not None:
            if "error" in model:
                issues.append(Issue("A", model))
            else:
                if model["log"] != impl["log"] or model["outs"] != impl["outs"]:
                    issues.append(Issue("A", {"impl": impl, "model": model}))
                if model["log"] != obs["std"]["log"] or model["outs"] != obs["std"]["outs"]:
                    issues.append(Issue("B", {"std": obs["std"], "model": model}))
    return issues


def features(case, obs):
    f = [case["kind"]]
    if case["kind"] == "acloseexc":
        return ["acloseexc:" + case["where"]]
    if case["kind"] == "entersusp":
        return _enter_susp.features(case, obs)
    if case["kind"] == "unwind":
        f.append("n=%d" % len(case["stack"]))
        f.append("out=" + ("normal" if obs["impl"]["out"] is None else "raises"))
        f.append("body=" + ("normal" if case["body"] is None else "raises"))
        for i in case["stack"]:
            f.append("kind=" + case["entries"][str(i)]["k"])
    elif case["kind"] == "reentrant":
        f += ["reentrant:" + case["act"], "n=%d" % case["n"]]
    else:
        f.append("ops=%d" % len(case["ops"]))
        for op in case["ops"]:
            f.append("op=" + op[0])
    return f


def nontrivial(case, obs):
    return bool(obs["impl"]["log"])


# "B" = raise the very exception object of the block (id BODY_EXC), whatever is in flight
BEH = [(n, s) for n in ("F", "T", "R", "B") for s in ("F", "T", "R", "S", "B")]


def _entry(i, kind, beh):
    n, s = beh
    code = {"B": "R%d" % BODY_EXC}
    return {"k": kind, "none": code.get(n, n) if n != "R" else "R%d" % (100 + i),
            "some": code.get(s, s) if s != "R" else "R%d" % (200 + i)}


def cases(tier, rng):
    yield from _reentrant_cases()
    for where in ("except", "finally"):
        yield {"kind": "acloseexc", "where": where, "entries": {}}
    # managers whose enter / exit / block SUSPEND, cancelled at any suspension point (Machines/ExitStackEnter.lean)
    yield from _enter_susp.cases(rng, 1500 if tier == "quick" else 20000)
    maxn = 3 if tier == "quick" else 4
    for n in range(0, maxn + 1):
        for behs in itertools.product(BEH, repeat=n):
            for body in (None, BODY_EXC):
                kinds = [rng.choice(KINDS) for _ in range(n)]
                entries = {str(i + 1): _entry(i + 1, kinds[i], behs[i]) for i in range(n)}
                yield {"kind": "unwind", "entries": entries, "stack": list(range(1, n + 1)), "body": body}
    # every kind in every position of a two-entry stack, all behaviours of the other one
    for k1 in KINDS:
        for k2 in KINDS:
            for b1 in BEH:
                for b2 in (("F", "F"), ("T", "T"), ("R", "R"), ("F", "S"), ("B", "B")):
                    for body in (None, BODY_EXC):
                        yield {"kind": "unwind", "entries": {"1": _entry(1, k1, b1), "2": _entry(2, k2, b2)},
                               "stack": [1, 2], "body": body}
    nh = 1500 if tier == "quick" else 20000
    maxops = 9 if tier == "quick" else 16
    for _ in range(nh):
        yield random_history(rng, rng.randint(1, maxops))


def random_history(rng, nops):
    entries, ops, nstacks, nid = {}, [], 1, 0
    for _ in range(nops):
        r = rng.random()
        sid = rng.randrange(nstacks)
        if r < 0.45:
            nid += 1
            entries[str(nid)] = _entry(nid, rng.choice(KINDS), rng.choice(BEH))
            ops.append(["reg", sid, nid])
        elif r < 0.52:
            nid += 1
            entries[str(nid)] = _entry(nid, rng.choice(["acm", "scm"]), rng.choice(BEH))
            ops.append(["enterfail", sid, nid, 300 + nid])
        elif r < 0.70:
            ops.append(["leave", sid, rng.choice([None, BODY_EXC, BODY_EXC + 1])])
        elif r < 0.85:
            ops.append(["aclose", sid])
        elif nstacks < 4:
            ops.append(["popall", sid])
            nstacks += 1
        else:
            ops.append(["aclose", sid])
    return {"kind": "history", "entries": entries, "ops": ops}


def search_cases(broken_cases, rng):
    """neighbours of disagreeing cases + a time-boxed random sweep, judged by the direct oracle only"""
    for case in broken_cases:
        if case["kind"] == "reentrant":
            continue
        if case["kind"] == "unwind":
            for body in (None, BODY_EXC):
                for k in KINDS:
                    c = {"kind": "unwind", "entries": {i: dict(e, k=k) for i, e in case["entries"].items()},
                         "stack": case["stack"], "body": body}
                    yield c
        else:
            for cut in range(1, len(case["ops"]) + 1):
                yield {"kind": "history", "entries": case["entries"], "ops": case["ops"][:cut] + [["aclose", 0]]}
    for _ in range(3000):
        yield random_history(rng, rng.randint(2, 14))
