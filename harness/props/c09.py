"""C09 — tee children all see the full source sequence under every interleaving.

The real `asyncstdlib.tee` is driven by hand: every consumer is a coroutine
`async for item in child: record; <suspend once>`; one schedule entry = one `send` on one consumer
(= `Op.sched i` of the Lean machine `Machines/Tee.lean`).  The source suspends through `Susp` as
often as the case says, the lock is a harness lock whose blocking is a visible suspension, children
are closed with `child.aclose()` / `tee.aclose()`, and a cancellation is thrown into a consumer at
whatever suspension point it is at.  The reference is the real `itertools.tee`, replayed with the
same order of deliveries.
"""
import gc
import itertools
import json
import time
import weakref

from framework import Issue
from world import Item, Susp, UserBaseExc, drive, asyncstdlib

RULE = (
    "a case = (number of children 2..4, source length 0..4, suspensions of the n-th source pull 0..2, lock or not, "
    "source kind {async generator, class-based async iterator with/without aclose, synchronous iterator}, operation "
    "sequence over {send on consumer i, child i.aclose(), cancel consumer i, tee.aclose()}) followed by a round-robin "
    "drain so that every live consumer finishes. Exhaustive part: depth-first enumeration of ALL send-only schedules "
    "(every choice of runnable consumer at every suspension point) for the small configurations, then every single "
    "close / cancel / tee.aclose inserted at every position of sampled schedules; then seeded random cases. "
    "non-trivial = at least two consumers received an item or an item was delivered after a close/cancel; "
    "distinct by case content"
)
AMPLIFY = "search"   # on a source change: quick cases + the failing-input search (the thorough generator is minutes / GBs)
EXHAUSTIVE = {"quick": True, "thorough": True}
SCOPE = {
    "quick": "ALL send-only schedules (every runnable consumer at every suspension point, to completion) for "
             "(consumers, source length, suspensions per pull) in {2}x{0,1,2}x{0,1,2}, (2,3,0), (2,3,1), (3,0,0), (3,1,0), "
             "(3,0,1), (3,1,1), (3,2,0), (4,0,0), each with and without lock, async-generator and class-based source; every "
             "single close/cancel/tee.aclose at every position of every 150th schedule and one random insertion into every "
             "3rd; 6000 random cases with 2..4 consumers, length 0..4, 0..2 suspensions per pull",
    "thorough": "quick grid plus (3,0,2), (4,1,0), (4,0,1), and (2,3,2), (3,1,2) for lock+async generator / no lock+"
                "class-based; every single close/cancel/tee.aclose at every position of every 300th schedule and one random "
                "insertion into every 6th; 60000 random cases",
}
ASSUMPTIONS = [
    "the source does not fail by itself (faults are C06's subject); user aclose() neither raises nor suspends (H-close)",
    "a harness lock provides mutual exclusion, is released by __aexit__, and blocks through visible suspensions",
    "without a lock and with a suspending source only the class-based (concurrency-safe) source is used: the property's "
    "precondition excludes that combination, the model is still compared step by step",
    "a consumer suspends exactly once between two items; aclose() of a child is issued only from outside its consumer",
    "retention is observed through weak references to lazily created items; the item last fetched by a child stays "
    "referenced by that child's frame (local `item`) and is tolerated",
]
TRUSTED = [
    "C09: CPython async-generator semantics assumed by Machines/Tee.lean: an unstarted generator runs no code when "
    "closed; aclose() at a yield runs the finally block; aclose() while an __anext__ is pending raises RuntimeError "
    "and changes nothing; an exception thrown into a pending __anext__ of an async-generator source finishes it",
]

KINDS = ("agen", "aobj", "aobj_nc", "iter")
# A child's frame keeps naming the deque it appended to last (`for peer_buffer in peers`), so the buffer of a
# child that was removed while lagging stays referenced until that sibling fetches again or finishes.  Reported
# as a violation of "retained only until the slowest live child has yielded it" unless this is set.
TOLERATE_STALE_PEER_BUFFER = False
CANCEL_EID = 900
TRUNCATED = []   # configurations whose schedule enumeration was cut short (empty on the unchanged library)


class Env:
    """everything one run shares: the current task, the source state, weak references to items"""

    def __init__(self, n_items, susp):
        self.cur = None
        self.n_items = n_items
        self.susp = susp
        self.refs = {}
        self.idx = 0            # next item of the script
        self.pulls = 0          # __anext__ calls that found the source alive
        self.fetched = []       # ids returned by the source, in order
        self.fetched_by = {}    # task -> id of the item it fetched last
        self.active = 0
        self.overlap = False
        self.dead = False
        self.closes = 0
        self.protocol = []      # lock protocol breaches

    def mk(self, i):
        it = Item(i, 0)
        self.refs[i] = weakref.ref(it)
        self.fetched.append(i)
        self.fetched_by[self.cur] = i
        return it

    def nsusp(self, pull):
        return self.susp[pull] if pull < len(self.susp) else 0

    def alive(self):
        return sorted(i for i, r in self.refs.items() if r() is not None)


class HLock:
    """a lock whose blocking is a visible suspension: a blocked task that is sent to re-checks"""

    def __init__(self, env):
        self.env = env
        self.holder = None
        self.waiting = 0

    def __len__(self):
        # like a FIFO lock exposing its queue: the number of waiters — 0, hence *falsy*, when the tee is created.
        # "a lock is supplied" means `lock is not None`, not `bool(lock)`.
        return self.waiting

    async def __aenter__(self):
        self.waiting += 1
        try:
            while self.holder is not None:
                await Susp(["lock"])
        finally:
            self.waiting -= 1
        self.holder = self.env.cur

    async def __aexit__(self, et, ev, tb):
        if self.holder != self.env.cur:
            self.env.protocol.append(["release-by-non-holder", self.holder, self.env.cur])
        self.holder = None
        # a hand-off lock: after releasing it yields to the loop so that a waiter can run at once.  Whatever the tee
        # does after `__aexit__` has released the lock is no longer protected by it.
        for j in range(getattr(self.env, "handoff", 0)):
            await Susp(["unlock", j])


class AObjSource:
    """class-based async iterator; safe under concurrent __anext__; survives a cancelled __anext__"""

    def __init__(self, env):
        self.env = env

    def __aiter__(self):
        return self

    async def __anext__(self):
        env = self.env
        if env.active > 0:
            env.overlap = True
        if env.dead:
            raise StopAsyncIteration
        pull = env.pulls
        env.pulls += 1
        env.active += 1
        try:
            for j in range(env.nsusp(pull)):
                await Susp(["src", pull, j])
        finally:
            env.active -= 1
        if env.dead or env.idx >= env.n_items:
            env.dead = True
            raise StopAsyncIteration
        i = env.idx
        env.idx += 1
        return env.mk(i)

    async def aclose(self):
        self.env.closes += 1
        self.env.dead = True
        if getattr(self.env, "close_raises", False):
            raise OSError("connection lost while closing")


class AObjNoClose:
    def __init__(self, env):
        self._inner = AObjSource(env)

    def __aiter__(self):
        return self

    def __anext__(self):
        return self._inner.__anext__()


async def agen_source(env):
    while True:
        pull = env.pulls
        env.pulls += 1
        for j in range(env.nsusp(pull)):
            await Susp(["src", pull, j])
        if env.idx >= env.n_items:
            return
        env.idx += 1
        yield env.mk(env.idx - 1)


def iter_source(env):
    while True:
        env.pulls += 1
        if env.idx >= env.n_items:
            return
        env.idx += 1
        yield env.mk(env.idx - 1)


async def consumer(idx, child, outs):
    async for item in child:
        outs[idx].append(item.id)
        del item
        await Susp(["gap", idx])


class Run:
    """the real tee under a hand-driven scheduler"""

    def __init__(self, case):
        self.case = case
        n = case["n"]
        self.env = env = Env(case["len"], case["susp"])
        env.handoff = case.get("handoff", 0)
        kind = case["kind"]
        if kind == "agen":
            self.src = agen_source(env)
        elif kind == "aobj":
            self.src = AObjSource(env)
        elif kind == "aobj_nc":
            self.src = AObjNoClose(env)
        else:
            self.src = iter_source(env)
        self.lock = HLock(env) if case["lock"] else None
        self.tee = asyncstdlib.tee(self.src, n, lock=self.lock) if case["lock"] else asyncstdlib.tee(self.src, n)
        self.children = list(self.tee)
        self.outs = [[] for _ in range(n)]
        self.tasks = [consumer(i, self.children[i], self.outs) for i in range(n)]
        self.state = ["active"] * n     # active | end | cancelled | error
        self.closed = [False] * n       # aclose() issued on the child (by close / tee.aclose)
        self.closed_unstarted = [False] * n
        self.started = [False] * n      # the child generator has been advanced at least once
        self.inside = [False] * n       # the consumer is suspended inside child.__anext__
        self.stale = {}                 # child -> ids that were in its buffer when its finally block removed it

    # -- operations ---------------------------------------------------------------------------
    def _finish(self, i, how):
        self.state[i] = how
        self.inside[i] = False

    def _token(self, i, tok):
        if tok[0] == "gap":
            self.inside[i] = False
            return ["item", self.outs[i][-1]]
        self.inside[i] = True
        return ["susp", tok[0]]

    def sched(self, i):
        if i >= len(self.tasks) or self.state[i] != "active":
            return ["noop"]
        self.env.cur = i
        if not self.closed[i]:
            self.started[i] = True
        try:
            tok = self.tasks[i].send(None)
        except StopIteration:
            self._finish(i, "end")
            return ["end"]
        except BaseException as exc:  # noqa: B036
            self._finish(i, "error")
            return ["error", type(exc).__name__]
        return self._token(i, tok)

    def cancel(self, i):
        if i >= len(self.tasks) or self.state[i] != "active":
            return ["noop"]
        self.env.cur = i
        exc = UserBaseExc(CANCEL_EID + i)
        try:
            tok = self.tasks[i].throw(exc)
        except StopIteration:
            self._finish(i, "error")
            return ["swallowed"]
        except BaseException as got:  # noqa: B036
            self._finish(i, "cancelled")
            same = got is exc
            name = type(got).__name__
            # a traceback keeps the frames it passed through (and their locals) alive
            got.__traceback__ = None
            exc.__traceback__ = None
            del got, exc
            return ["cancelled"] if same else ["error", name]
        return ["resumed-after-cancel"] + self._token(i, tok)

    def _aclose(self, coro):
        self.env.cur = None
        res = drive(coro)
        if res.exc is None:
            return ["closed"]
        exc, res.exc = res.exc, None
        # an exception keeps the frames it passed through (the children's, with their buffers) alive through its traceback
        # and through the tracebacks of its context chain (the GeneratorExit thrown into the child): the caller drops it here
        link, seen = exc, set()
        while link is not None and id(link) not in seen:
            seen.add(id(link))
            link.__traceback__ = None
            link = link.__context__ or link.__cause__
        del link
        if isinstance(exc, RuntimeError) and "already running" in str(exc):
            return ["busy"]
        return ["error", type(exc).__name__]

    def close(self, i):
        if i >= len(self.tasks):
            return ["noop"]
        out = self._aclose(self.children[i].aclose())
        if out == ["closed"]:
            self._mark_closed(i)
        return out

    def _mark_closed(self, i):
        if not self.closed[i]:
            self.closed[i] = True
            if not self.started[i]:
                self.closed_unstarted[i] = True

    def _child_finished(self, i):
        return self.children[i].ag_frame is None

    def close_all(self):
        out = self._aclose(self.tee.aclose())
        # children before the first busy one were closed
        for i in range(len(self.children)):
            if self.inside[i]:
                break
            self._mark_closed(i)
        return out

    def apply(self, op):
        if op[0] == "s":
            out = self.sched(op[1])
        elif op[0] == "c":
            out = self.close(op[1])
        elif op[0] == "x":
            out = self.cancel(op[1])
        elif op[0] == "ca":
            out = self.close_all()
        else:
            raise ValueError(op)
        for i in range(len(self.children)):
            if i not in self.stale and self.started[i] and self._child_finished(i):
                # the child's finally block has run: what it had not yielded yet was in its buffer
                self.stale[i] = self.env.fetched[len(self.outs[i]):]
        return out

    # -- observation --------------------------------------------------------------------------
    def live(self):
        """children that are live in the sense of the property: not closed, not finished"""
        return [i for i in range(len(self.children)) if not self.closed[i] and not self._child_finished(i)]

    def snapshot(self):
        env = self.env
        kind = self.case["kind"]
        if kind == "agen":
            released = self.src.ag_frame is None
        else:
            released = None
        return {
            "fetched": list(env.fetched),
            "pulls": env.pulls,
            "overlap": env.overlap,
            "holder": self.lock.holder if self.lock is not None else None,
            "closes": env.closes,
            "released": released,
            "alive": env.alive(),
            "live": self.live(),
            "last_fetched": sorted(set(env.fetched_by.values())),
            "closed_unstarted": [i for i, c in enumerate(self.closed_unstarted) if c],
            "stale": sorted({v for vs in self.stale.values() for v in vs}),
            "outs": [list(o) for o in self.outs],
        }

    def teardown(self):
        """finish everything explicitly (coroutine.close() would leave a pending __anext__ of an async generator
        marked as running on CPython 3.12, so exceptions are thrown instead)"""
        for i in range(len(self.tasks)):
            if self.state[i] == "active":
                self.cancel(i)
        for child in self.children:
            try:
                drive(child.aclose())
            except BaseException:  # noqa: B036
                pass


def all_ops(case):
    return list(case["ops"]) + drain_ops(case)


def drain_ops(case):
    rounds = case.get("drain", 0)
    return [["s", i] for _ in range(rounds) for i in range(case["n"])]


def _observe_srcclose(case):
    """prefix operations, then `Tee.aclose()` over a source whose own `aclose()` RAISES (Machines/TeeClose.lean)"""
    was_enabled = gc.isenabled()
    gc.disable()
    try:
        run = Run(case)
        run.env.close_raises = case["srcclose"] == "raises"
        for op in case["ops"]:
            run.apply(op)
        before = len(run.env.alive())
        closes_before = run.env.closes
        out = run.close_all()
        after = len(run.env.alive())
        closes_after = run.env.closes
        second = run._aclose(run.tee.aclose())
        obs = {"out": out, "alive_before": before, "alive_after": after, "closes_before": closes_before, "closes_after": closes_after,
               "second": second, "closes_second": run.env.closes, "alive_second": len(run.env.alive()),
               "inside": [bool(x) for x in run.inside]}
        run.env.close_raises = False
        run.teardown()
        return obs
    finally:
        if was_enabled:
            gc.enable()


def _judge_srcclose(case, obs, model):
    issues = []
    busy = obs["out"] == ["busy"]
    if not busy and obs["alive_after"] != 0:
        issues.append(Issue("oracle", obs, "tee-closed-but-backlog-retained"))
    if not busy and obs["closes_after"] < 1:
        issues.append(Issue("oracle", obs, "tee-closed-but-source-not-closed"))
    if not busy and (obs["second"] != ["closed"] or obs["closes_second"] != obs["closes_after"] or obs["alive_second"] != 0):
        issues.append(Issue("oracle", obs, "second-tee-aclose-not-a-no-op"))
    if model is not None:
        if "error" in model:
            issues.append(Issue("A", model))
        else:
            mout = ["error"] if model["raised"] else model["out"][:1]
            got = (obs["out"][:1], obs["closes_before"], obs["closes_after"])
            exp = (mout, model["closes_before"], model["closes_after"])
            if got != exp or (not busy and model["retained_after"] != obs["alive_after"]):
                issues.append(Issue("A", {"asyncstdlib": obs, "model": model}))
    return issues


def observe(case):
    if case.get("family") == "teelist":
        import props.c01 as c01
        return {"tee_async": c01._run_tee(case, False), "tee_sync": c01._run_tee(case, True)}
    if case.get("srcclose"):
        return _observe_srcclose(case)
    was_enabled = gc.isenabled()
    gc.disable()
    try:
        run = Run(case)
        steps = []
        for op in all_ops(case):
            out = run.apply(op)
            if out == ["noop"] and steps:
                snap = {"out": out}          # nothing ran: same state as before
            else:
                snap = run.snapshot()
                snap["out"] = out
            steps.append(snap)
        final = {"state": list(run.state), "closed": list(run.closed), "closed_unstarted": list(run.closed_unstarted),
                 "protocol": run.env.protocol, "src_finished_by_cancel": _killed(run)}
        deliveries = [(op[1], st["out"][1]) for op, st in zip(all_ops(case), steps)
                      if op[0] == "s" and st["out"][0] == "item"]
        ref = _reference(case, deliveries)
        run.teardown()
        # kept as one string and decoded when the case is judged (a run holds every observation in memory)
        compact = [{k: v for k, v in st.items() if k in ("out", "outs") or v != STEP_DEFAULTS[k]} for st in steps]
        return {"steps": json.dumps(compact, separators=(",", ":")), "final": final, "ref": ref}
    finally:
        if was_enabled:
            gc.enable()


def _killed(run):
    """an async-generator source finished although it neither reported its end nor was closed by the tee"""
    if run.case["kind"] != "agen":
        return False
    return run.src.ag_frame is None and run.env.idx < run.env.n_items


def _reference(case, deliveries):
    """the real itertools.tee, advanced in the same order of deliveries"""
    kids = itertools.tee(iter(range(case["len"])), case["n"])
    got = []
    for task, _ in deliveries:
        try:
            got.append(next(kids[task]))
        except StopIteration:
            got.append(None)
    # what every reference child would still deliver
    rest = [list(k) for k in kids]
    return {"values": got, "rest": rest}


# a step observation omits the fields that have these values
STEP_DEFAULTS = {"fetched": [], "pulls": 0, "overlap": False, "holder": None, "closes": 0, "released": None,
                 "alive": [], "live": [], "last_fetched": [], "closed_unstarted": [], "stale": []}
MODEL_DEFAULTS = {"fetched": [], "pulls": 0, "overlap": False, "holder": None, "closes": 0, "released": False,
                  "retained": []}


def decode_steps(obs):
    """the per-step observations; a `noop` step repeats the state of the step before it"""
    steps = json.loads(obs["steps"]) if isinstance(obs["steps"], str) else obs["steps"]
    prev = None
    out = []
    for st in steps:
        if "outs" not in st and prev is not None:
            st = dict(prev, out=st["out"])
        else:
            st = dict(STEP_DEFAULTS, **st)
        out.append(st)
        prev = st
    return out


def model_request(case):
    if case.get("family") == "teelist":
        return None     # a real list that changes under the children: decided against itertools.tee alone
    if case.get("srcclose"):
        return {"m": "teeclose", "items": list(range(case["len"])), "n": case["n"], "susp": case["susp"], "lock": case["lock"],
                "closeable": True, "dies": False, "ops": case["ops"], "srcclose": case["srcclose"]}
    if case.get("handoff"):
        return None     # the machine's lock releases without suspending; hand-off locks are judged by the oracles alone
    kind = case["kind"]
    return {"m": "tee", "n": case["n"], "len": case["len"], "susp": case["susp"], "lock": case["lock"],
            "closeable": kind != "aobj_nc", "dies": kind in ("agen", "iter"), "ops": all_ops(case)}


def precondition(case):
    return bool(case["lock"]) or all(s == 0 for s in case["susp"])


def judge(case, obs, model):
    issues = []
    if case.get("family") == "teelist":
        a, b = obs["tee_async"], obs["tee_sync"]
        if a.get("list_iters", 0) > 1:
            issues.append(Issue("oracle", {"iterator_requests": a["list_iters"]}, "source-list-iterated-once-per-child"))
        if (a["out"], a["ends"]) != (b["out"], b["ends"]):
            issues.append(Issue("oracle", {"asyncstdlib": a, "itertools": b}, "children-differ-from-itertools-tee-over-a-changing-list"))
        return issues
    if case.get("srcclose"):
        return _judge_srcclose(case, obs, model)
    ops = all_ops(case)
    steps = decode_steps(obs)
    final = obs["final"]
    pre = precondition(case)
    n = case["n"]
    items = list(range(case["len"]))

    # ---- direct oracle on the real code -------------------------------------------------------
    deliveries = [(op[1], st["out"][1]) for op, st in zip(ops, steps) if op[0] == "s" and st["out"][0] == "item"]
    if pre:
        if [v for _, v in deliveries] != obs["ref"]["values"]:
            issues.append(Issue("oracle", {"deliveries": deliveries, "itertools_tee": obs["ref"]["values"]},
                                "child-sequence-differs-from-itertools-tee"))
    last = steps[-1] if steps else None
    for k, st in enumerate(steps):
        fetched = st["fetched"]
        if fetched != items[:len(fetched)]:
            issues.append(Issue("oracle", {"step": k, "fetched": fetched}, "source-item-fetched-twice-or-out-of-order"))
            break
        bad = [i for i in range(n) if st["outs"][i] != fetched[:len(st["outs"][i])]]
        if bad and pre:
            issues.append(Issue("oracle", {"step": k, "child": bad[0], "out": st["outs"][bad[0]], "fetched": fetched},
                                "child-not-a-prefix-of-source"))
            break
        if st["out"][0] in ("error", "swallowed", "resumed-after-cancel") and pre:
            issues.append(Issue("oracle", {"step": k, "op": ops[k], "out": st["out"]}, "consumer-failed:" + str(st["out"][-1])))
            break
        if case["lock"] and st["overlap"]:
            issues.append(Issue("oracle", {"step": k}, "source-advanced-by-two-consumers-under-lock"))
            break
        # retention: nothing is alive that every live child has already yielded, except the item a child's own
        # frame still names (`item = await iterator.__anext__()`)
        live = st["live"]
        slowest = min([len(st["outs"][i]) for i in live], default=len(fetched))
        allowed = set(fetched[slowest:]) | set(st["last_fetched"])
        extra = [i for i in st["alive"] if i not in allowed]
        if extra and not (TOLERATE_STALE_PEER_BUFFER and set(extra) <= set(st["stale"])):
            if st["closed_unstarted"]:
                # a child closed before its first step never ran its finally block: its buffer is still registered and
                # fed, so whatever it has not "yielded" stays alive (finding D9; takes precedence over the next tag)
                tag = "retained-for-child-closed-before-first-step"
            elif set(extra) <= set(st["stale"]):
                # what a removed child had not yielded yet is still referenced (a sibling's frame names the removed
                # deque through its loop variable `peer_buffer`)
                tag = "removed-child-buffer-still-referenced"
            else:
                tag = "item-retained-after-slowest-live-child-yielded-it"
            issues.append(Issue("oracle", {"step": k, "op": ops[k], "alive": st["alive"], "slowest_live": slowest,
                                           "live": live, "extra": extra, "stale": st["stale"],
                                           "closed_before_first_step": st["closed_unstarted"]}, tag))
            break
    if last is not None and pre:
        for i in range(n):
            if final["state"][i] == "end" and not final["closed"][i]:
                # the consumer ran its child to exhaustion
                if last["outs"][i] != last["fetched"]:
                    issues.append(Issue("oracle", {"child": i, "out": last["outs"][i], "fetched": last["fetched"]},
                                        "exhausted-child-missed-items"))
                    break
                if not final["src_finished_by_cancel"] and obs["ref"]["rest"][i]:
                    issues.append(Issue("oracle", {"child": i, "out": last["outs"][i], "items": items,
                                                   "itertools_tee_child_still_has": obs["ref"]["rest"][i]},
                                        "exhausted-child-missed-source-items"))
                    break
    if pre and last is not None and "active" in final["state"]:
        # liveness within the explored scope: after the drain every consumer has finished
        issues.append(Issue("oracle", {"state": final["state"], "last_out": last["out"]}, "consumer-never-finishes"))
    if final["protocol"]:
        issues.append(Issue("oracle", {"protocol": final["protocol"]}, "lock-released-by-non-holder"))

    # ---- correspondence with the Lean machine ---------------------------------------------------
    if model is not None:
        if "error" in model:
            issues.append(Issue("A", model))
            return issues
        msteps = json.loads(model["steps"]) if isinstance(model["steps"], str) else model["steps"]
        if len(msteps) != len(steps):
            issues.append(Issue("A", {"steps": len(steps), "model_steps": len(msteps)}))
            return issues
        specs = []
        for k, (st, ms) in enumerate(zip(steps, msteps)):
            if st["out"] != ms["out"]:
                issues.append(Issue("A", {"step": k, "op": ops[k], "diff": {"out": [st["out"], ms["out"]]}}))
                break
            if "st" not in ms:
                continue      # noop on both sides: nothing ran
            m = dict(MODEL_DEFAULTS, **ms["st"])
            diff = {}
            for key in ("fetched", "outs", "overlap", "holder", "pulls"):
                if st[key] != m[key]:
                    diff[key] = [st[key], m[key]]
            if case["kind"] in ("aobj", "aobj_nc") and st["closes"] != m["closes"]:
                diff["closes"] = [st["closes"], m["closes"]]
            if case["kind"] == "agen" and bool(st["released"]) != m["released"]:
                diff["released"] = [st["released"], m["released"]]
            retained = set(m["retained"])
            alive = set(st["alive"])
            if not retained <= alive or not alive <= retained | set(st["last_fetched"]) | set(st["stale"]):
                diff["retained"] = {"alive": st["alive"], "model_buffers": m["retained"],
                                    "last_fetched": st["last_fetched"], "stale": st["stale"]}
            if diff:
                issues.append(Issue("A", {"step": k, "op": ops[k], "diff": diff}))
                break
            if ms["out"][0] == "item":
                specs.append(ms.get("spec"))
                if ms.get("spec") != ms["out"][1] and pre:
                    issues.append(Issue("MS", {"step": k, "model": ms["out"], "spec": ms.get("spec")}))
                    break
        else:
            if pre and specs != obs["ref"]["values"]:
                issues.append(Issue("B", {"itertools_tee": obs["ref"]["values"], "spec": specs}))
    return issues


def features(case, obs):
    if case.get("family") == "teelist":
        return ["family=teelist", "n=%d" % case["n"]]
    if case.get("srcclose"):
        return ["family=srcclose:" + case["srcclose"], "srcclose-out=" + obs["out"][0], "n=%d" % case["n"]]
    f = ["n=%d" % case["n"], "len=%d" % case["len"], "lock=%s" % case["lock"], "kind=" + case["kind"],
         "maxsusp=%d" % max(case["susp"] or [0]), "origin=" + case.get("origin", "?"),
         "pre=%s" % precondition(case)]
    kinds = {op[0] for op in case["ops"]}
    for k, name in (("c", "close"), ("x", "cancel"), ("ca", "tee.aclose")):
        if k in kinds:
            f.append("op=" + name)
    steps = decode_steps(obs)
    outs = {tuple(st["out"][:2]) if st["out"][0] == "susp" else st["out"][0] for st in steps}
    for o in outs:
        f.append("out=" + (":".join(o) if isinstance(o, tuple) else o))
    if any(obs["final"]["closed_unstarted"]):
        f.append("closed-before-first-step")
    if obs["final"]["src_finished_by_cancel"]:
        f.append("source-finished-by-cancel")
    if any(st["overlap"] for st in steps):
        f.append("overlap")
    ended = sum(1 for i, s in enumerate(obs["final"]["state"]) if s == "end" and not obs["final"]["closed"][i])
    f.append("exhausted-children=%d" % ended)
    return f


def nontrivial(case, obs):
    if case.get("family") == "teelist":
        return any(obs["tee_async"]["out"])
    if case.get("srcclose"):
        return bool(case["ops"])
    steps = decode_steps(obs)
    if not steps:
        return False
    got = sum(1 for o in steps[-1]["outs"] if o)
    if got >= 2:
        return True
    seen_special = False
    for op, st in zip(all_ops(case), steps):
        if op[0] in ("c", "x", "ca"):
            seen_special = True
        elif seen_special and st["out"][0] == "item":
            return True
    return False


# ---------------------------------------------------------------------------------------------
# case generation


def _base(n, ln, susp, lock, kind, ops, origin, drain=None):
    if drain is None:
        drain = (ln + 2) * (max(susp or [0]) + 3) + 2
    return {"n": n, "len": ln, "susp": list(susp), "lock": lock, "kind": kind, "ops": ops, "drain": drain,
            "origin": origin}


def _enumerate_schedules(n, ln, susp, lock, kind, limit, max_depth=80, budget_s=30.0):
    """depth-first enumeration of all maximal send-only schedules, by replaying prefixes on the real tee:
    at every point every consumer that is still active may be chosen, except that a consumer that found the lock
    taken is not chosen again before some other consumer has made a step that changed something (re-checking the
    lock changes nothing: in the machine that step is the identity).  Returns (schedules, truncated)."""
    out = []
    stack = [[]]
    truncated = False
    t_end = time.time() + budget_s
    while stack:
        if len(out) >= limit or (len(out) % 256 == 0 and time.time() > t_end):
            truncated = True    # never on the unchanged library; a changed one may have unboundedly many schedules
            break
        prefix = stack.pop()
        case = _base(n, ln, susp, lock, kind, [["s", i] for i in prefix], "dfs", drain=0)
        run = Run(case)
        spun = set()
        for i in prefix:
            if run.sched(i) == ["susp", "lock"]:
                spun.add(i)
            else:
                spun.clear()
        active = [i for i in range(n) if run.state[i] == "active"]
        run.teardown()
        if not active:
            out.append(prefix)
            continue
        if len(prefix) >= max_depth:
            truncated = True
            out.append(prefix)
            continue
        choices = [i for i in active if i not in spun] or active
        for i in reversed(choices):
            stack.append(prefix + [i])
    return out, truncated


def _insertions(n, sched):
    """every single close / cancel / tee.aclose at every position"""
    for pos in range(len(sched) + 1):
        for i in range(n):
            yield sched[:pos] + [["c", i]] + sched[pos:]
            yield sched[:pos] + [["x", i]] + sched[pos:]
        yield sched[:pos] + [["ca"]] + sched[pos:]


def _susp_for(ln, n, k):
    return [k] * (ln + n + 1)


def random_case(rng, origin="random", maxn=4, maxlen=4):
    n = rng.randint(2, maxn)
    ln = rng.randint(0, maxlen)
    lock = rng.random() < 0.6
    kind = rng.choice(KINDS)
    if kind == "iter":
        susp = []
    else:
        mode = rng.random()
        if mode < 0.25:
            susp = []
        else:
            susp = [rng.randint(0, 2) for _ in range(ln + n + 2)]
    if not lock and any(susp) and kind == "agen":
        kind = rng.choice(("aobj", "aobj_nc"))
    nops = rng.randint(0, (ln + 2) * 3 * n // 2 + 4)
    ops = []
    p_special = rng.choice((0.0, 0.05, 0.15, 0.3))
    for _ in range(nops):
        r = rng.random()
        if r < p_special / 2:
            ops.append(["c", rng.randrange(n)])
        elif r < p_special * 0.9:
            ops.append(["x", rng.randrange(n)])
        elif r < p_special:
            ops.append(["ca"])
        else:
            # bias towards running one task for a while, to get far-apart children
            if ops and ops[-1][0] == "s" and rng.random() < 0.5:
                ops.append(list(ops[-1]))
            else:
                ops.append(["s", rng.randrange(n)])
    return _base(n, ln, susp, lock, kind, ops, origin)


# (consumers, source length, suspensions per pull): every send-only schedule is enumerated
GRID_QUICK = ([(2, ln, k) for ln in (0, 1, 2) for k in (0, 1, 2)] + [(2, 3, 0), (2, 3, 1)]
              + [(3, 0, 0), (3, 1, 0), (3, 0, 1), (3, 1, 1), (3, 2, 0), (4, 0, 0)])
# the big ones: only an async-generator source with a lock, a class-based one without
GRID_THOROUGH_BIG = [(2, 3, 2), (3, 1, 2)]
GRID_THOROUGH = GRID_QUICK + [(3, 0, 2), (4, 1, 0), (4, 0, 1)]


def _configs(tier):
    out = []
    grid = GRID_QUICK if tier == "quick" else GRID_THOROUGH
    for n, ln, k in grid:
        for lock in (True, False):
            for kind in ("agen", "aobj"):
                if not lock and k > 0 and kind == "agen":
                    continue     # outside the precondition, and an async generator cannot be entered twice
                out.append((n, ln, k, lock, kind))
    if tier != "quick":
        for n, ln, k in GRID_THOROUGH_BIG:
            out.append((n, ln, k, True, "agen"))
            out.append((n, ln, k, False, "aobj"))
    return out


def cases(tier, rng):
    quick = tier == "quick"
    # the source is a real list (also one that changes while the children are at different positions): one shared iterator
    import props.c01 as c01
    for c in c01._tee_cases(tier):
        if c["srcs"][0]["kind"] == "list":
            yield dict(c, family="teelist")
    del TRUNCATED[:]
    stride_all, stride_one = (150, 3) if quick else (300, 6)
    count = 0
    # bounds that the unchanged library stays far below (largest configuration: 6720 / 71982 schedules, whole
    # enumeration 6 s / 60 s); a changed library may have many more schedules, then the enumeration is cut short
    # and the cases are marked `dfs-truncated`
    per_config = 10000 if quick else 100000
    total_left = 45000 if quick else 450000
    t_end = time.time() + (40.0 if quick else 600.0)
    for n, ln, k, lock, kind in _configs(tier):
        susp = _susp_for(ln, n, k)
        scheds, truncated = _enumerate_schedules(n, ln, susp, lock, kind, max(1, min(per_config, total_left)),
                                                 budget_s=max(0.5, min(15.0 if quick else 150.0, t_end - time.time())))
        total_left -= len(scheds)
        if truncated:
            TRUNCATED.append([n, ln, k, lock, kind])
        for sched in scheds:
            ops = [["s", i] for i in sched]
            yield _base(n, ln, susp, lock, kind, ops, "dfs-truncated" if truncated else "dfs", drain=1)
            count += 1
            kind2 = "aobj_nc" if (kind == "aobj" and count % 2) else kind
            if count % stride_all == 0:
                # every single close / cancel / tee.aclose at every position of this schedule
                for ops2 in _insertions(n, ops):
                    yield _base(n, ln, susp, lock, kind2, ops2, "insert")
            elif count % stride_one == 0:
                # one of them, chosen at random
                pos = rng.randrange(len(ops) + 1)
                r = rng.random()
                new = ["ca"] if r < 0.15 else [("c" if r < 0.55 else "x"), rng.randrange(n)]
                yield _base(n, ln, susp, lock, kind2, ops[:pos] + [new] + ops[pos:], "insert1")
    # a child closed before its first step, with the others running to the end
    for n in (2, 3):
        for ln in (1, 2, 3):
            for lock in (True, False):
                for kind in KINDS:
                    yield _base(n, ln, [], lock, kind, [["c", 0]], "early-close")
                    yield _base(n, ln, [], lock, kind, [["s", 1], ["c", 0]], "early-close")
                    yield _base(n, ln, [], lock, kind, [["ca"]], "early-close")
    nr = 6000 if quick else 60000
    for k in range(nr):
        case = random_case(rng)
        yield case
        if k % 3 == 0 and (case["lock"] or all(x == 0 for x in case["susp"])):
            # a prefix of the schedule, then the WHOLE tee is closed while closing the source fails / succeeds / is
            # impossible (Machines/TeeClose.lean): nothing may stay retained, the source is closed once, a second close is a no-op
            pre = [op for op in case["ops"] if op[0] != "ca"][: rng.randrange(len(case["ops"]) + 1)]
            yield dict(case, kind="aobj", srcclose=["raises", "raises", "ok"][k % 3 if k % 9 else 2], ops=pre, origin="srcclose", drain=0)
        if k % 6 == 0 and case["lock"]:
            # the same schedule with a hand-off lock (its __aexit__ suspends after releasing): oracle-only
            h = 1 + k % 2
            yield dict(case, handoff=h, origin="handoff", ops=[op for op in case["ops"] if op[0] != "x"],
                       drain=(case["len"] + 2) * (max(case["susp"] or [0]) + 3 + h) + 2)


def _full_drain(case):
    """a drain that lets every live consumer finish from ANY state of the case (the default of `_base`): the drain a
    broken case came with may be too short for a variant of it — e.g. the send-only schedules (`drain=1`) and the
    corpus cases are complete only together with their own operations — and a variant that merely stops early must
    not be reported as `consumer-never-finishes`"""
    return max(case.get("drain", 0), (case["len"] + 2) * (max(case["susp"] or [0]) + 3) + 2)


def search_cases(broken, rng):
    for case in broken:
        case = dict(case, drain=_full_drain(case))
        for kind in KINDS:
            if not case["lock"] and any(case["susp"]) and kind in ("agen", "iter"):
                continue
            if kind == "iter" and any(case["susp"]):
                continue
            yield dict(case, kind=kind, origin="search")
        for cut in range(len(case["ops"])):
            yield dict(case, ops=case["ops"][:cut], origin="search")
        yield dict(case, lock=True, origin="search")
    for _ in range(4000):
        yield random_case(rng, "search")
