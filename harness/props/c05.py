"""C05 — laziness: sources pulled and callables invoked in the stdlib's order."""
import s1
from framework import Issue
from s1 import features, model_request, nontrivial, observe  # noqa: F401
from tools import list_srcs, strip

RULE = (
    "every iterator tool x parameter grid x all item sequences up to length L over 2 keys (1..4 sources) x every "
    "number of consumer steps (close after 1..len+1 items, and exhaustion), source kinds and callable flavours rotated; "
    "plus seeded random longer cases. Compared: the whole interleaved sequence of pulls, end-of-source detections, "
    "callable invocations with arguments and yields against the real stdlib counterpart driven the same number of steps. "
    "non-trivial = at least one yield or a returned/raised outcome; distinct by case content"
)
EXHAUSTIVE = {"quick": True, "thorough": True}
SCOPE = {"quick": "L=3 (islice 5), <=3 sources, all consumer cut points", "thorough": "L=4 (islice 5), <=4 sources, all consumer cut points"}
ASSUMPTIONS = ["comparison operators of items are not user callables in the sense of the property",
               "pulls of real `list` arguments cannot be observed and are excluded from the comparison"]


def cases(tier, rng):
    from props import c01
    for outer in ("gen", "iter", "agen"):
        for pages in ([], [[1]], [[1, 2], [3]], [[], [1], [], [2, 3]], [[1], [2], [3], [4]]):
            for take in range(0, sum(map(len, pages)) + 2):
                yield {"tool": "chain", "family": "lazyouter", "outer": outer, "pages": pages, "take": take, "srcs": [], "params": {}, "fns": [],
                       "cons": {"fin": "close", "take": take}}
    for c in c01._tee_cases(tier):        # tee children: items fetched from the source after every single advance
        if c["srcs"][0]["kind"] != "list":
            yield c
    yield from s1.base_cases(tier, rng, s1.KINDS_ALL, s1.cons_all_cuts, tools_subset=s1.ITER_TOOLS + ["all", "any"])
    yield from s1.odd_value_cases(tier, rng, s1.KINDS_ALL, 500 if tier == "quick" else 10000, tools_subset=s1.ITER_TOOLS + ["all", "any"])
    yield from s1.impure_fn_cases(tier, rng, s1.KINDS_ALL, tools_subset=s1.ITER_TOOLS, cons_for=s1.cons_all_cuts)
    yield from s1.shared_source_cases(tier, rng, s1.KINDS_ALL, cons_for=s1.cons_all_cuts)
    yield from s1.random_cases(tier, rng, s1.KINDS_ALL, 1500 if tier == "quick" else 40000, cons_kinds=("exhaust", "close"), tools_subset=s1.ITER_TOOLS + ["all", "any"])


def _proj(vis, out):
    return [vis, s1._ref_out(out)]


def _run_lazy_outer(case, sync):
    """chain.from_iterable over a LAZY outer iterable (a generator / iterator / async generator of pages): the outer source is
    asked for page k only when page k-1 is exhausted, and for nothing before the first item is requested"""
    import itertools as _it
    from world import asyncstdlib, drive
    log = []
    pages = case["pages"]

    def outer_gen():
        for k, page in enumerate(pages):
            log.append(["outer", k])
            yield list(page)
        log.append(["outer-end"])

    async def outer_agen():
        for k, page in enumerate(pages):
            log.append(["outer", k])
            yield list(page)
        log.append(["outer-end"])
    if sync:
        it = _it.chain.from_iterable(outer_gen())
    else:
        outer = {"gen": outer_gen, "agen": outer_agen, "iter": lambda: iter(outer_gen())}[case["outer"]]()
        it = asyncstdlib.chain.from_iterable(outer)
    log.append(["constructed"])
    for _ in range(case["take"]):
        if sync:
            try:
                log.append(["item", next(it)])
            except StopIteration:
                log.append(["end"])
                break
        else:
            res = drive(it.__anext__())
            if res.exc is None:
                log.append(["item", res.value])
            else:
                log.append(["end"] if isinstance(res.exc, StopAsyncIteration) else ["raised", type(res.exc).__name__])
                break
    if not sync:
        drive(it.aclose())
    return log


def observe(case):  # noqa: F811
    if case.get("family") == "lazyouter":
        return {"async_log": _run_lazy_outer(case, False), "sync_log": _run_lazy_outer(case, True)}
    if case.get("family") == "tee":
        from props import c01
        return c01.observe(case)
    return s1.observe(case)


def model_request(case):  # noqa: F811
    if case.get("family") == "lazyouter":
        return None
    if case.get("family") == "tee":
        return None          # the schedule-level machine of tee is C09's
    return s1.model_request(case)


def nontrivial(case, obs):  # noqa: F811
    if case.get("family") == "lazyouter":
        return len(obs["async_log"]) > 1
    return s1.nontrivial(case, obs)


def features(case, obs):  # noqa: F811
    if case.get("family") == "lazyouter":
        return ["tool=chain.from_iterable", "outer=" + case["outer"]]
    if case.get("family") == "tee":
        return ["tool=tee", "kind=" + case["srcs"][0]["kind"]]
    return s1.features(case, obs)


def _drop_repolls(vis):
    ended, out, skip = set(), [], False
    for ev in vis:
        if ev[0] == "pull" and ev[1] in ended:
            skip = True
            continue
        if skip and ev[0] == "end" and ev[1] in ended:
            skip = False
            continue
        skip = False
        if ev[0] == "end":
            ended.add(ev[1])
        out.append(ev)
    return out


def judge(case, obs, model):
    issues = []
    if case.get("family") == "lazyouter":
        if obs["async_log"] != obs["sync_log"]:
            issues.append(Issue("oracle", {"asyncstdlib": obs["async_log"], "itertools": obs["sync_log"]}, "order-differs:chain.from_iterable:lazy-outer"))
        return issues
    if case.get("family") == "tee":
        a, b = obs["tee_async"], obs["tee_sync"]
        if (a["out"], a["ends"]) == (b["out"], b["ends"]) and a.get("fetched_after") != b.get("fetched_after"):
            issues.append(Issue("oracle", {"asyncstdlib_fetched_after_each_advance": a.get("fetched_after"),
                                           "itertools": b.get("fetched_after"), "pattern": case["pattern"]}, "order-differs:tee"))
        return issues
    ls = list_srcs(case)
    a = strip(obs["async"]["vis"], ls)
    s = strip(obs["sync"]["vis"], ls)
    if case.get("family") == "shared":
        # one iterator at several positions is polled again after it reported its end; whether user code runs then depends
        # on the kind (a finished async generator runs none, a synchronous iterator does): compare up to the first end
        a, s = _drop_repolls(a), _drop_repolls(s)
    if a != s or not s1.same_ending(obs["async"]["out"], obs["sync"]["out"]):
        core = lambda v: [ev for ev in v if ev[0] not in ("pull", "end")]  # noqa: E731
        if len(a) > len(s) and core(a) == core(s) and s1.same_ending(obs["async"]["out"], obs["sync"]["out"]):
            tag = "repoll-exhausted-source:" + case["tool"]
        else:
            tag = "order-differs:" + case["tool"]
        first = next((i for i, (x, y) in enumerate(zip(a, s)) if x != y), min(len(a), len(s)))
        issues.append(Issue("oracle", {"first_diff": first, "asyncstdlib": a[first:first + 4], "stdlib": s[first:first + 4],
                                       "out": [obs["async"]["out"], obs["sync"]["out"]]}, tag))
    # real lists: pulls cannot be seen, but how often an iterator is requested from the list can - every stdlib tool asks
    # each argument for ONE iterator (itertools.cycle replays what it saved, itertools.tee shares one iterator)
    ai = [x.get("iters") or 0 for x in obs["async"].get("srcs", [])]
    if any(n > 1 for n in ai):
        issues.append(Issue("oracle", {"iterator_requests_per_list_argument": ai}, "list-argument-iterated-again:" + case["tool"]))
    issues += s1.correspondence(case, obs, model, _proj)
    return issues


def search_cases(broken, rng):
    for case in broken:
        for kind in ("aobj", "agen", "iter"):
            c = dict(case)
            c["srcs"] = [dict(s, kind=kind) for s in case["srcs"]]
            yield c
    yield from s1.random_cases("quick", rng, ["aobj", "aobj_nc", "iter"], 3000, cons_kinds=("exhaust", "close"), tools_subset=s1.ITER_TOOLS + ["all", "any"])
