"""C18 — cancellation anywhere leaves no leaked source (iterator tools and aggregations).

Locks, caches, cached properties, ExitStack and scoped_iter blocks are exercised by the checks of their own
machines (C09, C11, C12, C14, C08); this module covers "every tool, aggregation" of the quantifier."""
import copy

import s1
import tools
from framework import Issue
import fam_enter_susp
from s1 import features  # noqa: F401
from tools import run_async
from world import Susp, UserBaseExc, UserExc, asyncstdlib, drive, exc_name

RULE = (
    "every tool and aggregation x parameter grid x item sequences up to length L, sources = async generators and "
    "class-based iterators that suspend once per pull, callables = async flavours that suspend once per call; the run is "
    "first driven without cancellation to count its suspension points N, then repeated N times throwing a BaseException "
    "in at suspension point 1..N; plus ExitStack blocks of 1..4 entered managers whose exits suspend, cancelled inside each "
    "exit while the stack unwinds (compared with literally nested async-with). Checked on the real code: that very object propagates out, and after the owner closed "
    "the library iterator every source is closed or exhausted. non-trivial = N >= 1; distinct by (case, point)"
)
EXHAUSTIVE = {"quick": True, "thorough": True}
SCOPE = {"quick": "L=2, <=2 sources per multi-source tool, every suspension point", "thorough": "L=3, <=3 sources, every suspension point"}
ASSUMPTIONS = ["H-close: a user aclose() neither raises nor suspends (a cancellation landing inside a suspending user aclose() "
               "is the separate open finding D17)",
               "the suspended user awaitable lets the thrown exception propagate (the common behaviour)"]


# ---- ExitStack family: cancellation inside a suspended exit while the stack unwinds -----------------------


class _SuspCM:
    def __init__(self, eid, log):
        self.eid, self.log = eid, log

    async def __aenter__(self):
        return self

    async def __aexit__(self, et, ev, tb):
        self.log.append([self.eid, getattr(ev, "eid", None) if ev is not None else None])
        await Susp(["exit", self.eid])
        return False


async def _stack_block(cms, body):
    async with asyncstdlib.ExitStack() as stack:
        for cm in cms:
            await stack.enter_context(cm)
        if body is not None:
            raise UserExc(body)


async def _nested_block(cms, body):
    if not cms:
        if body is not None:
            raise UserExc(body)
        return
    async with cms[0]:
        await _nested_block(cms[1:], body)


def _run_stack(case, nested):
    log = []
    cms = [_SuspCM(i + 1, log) for i in range(case["n"])]
    state = {"n": 0, "exc": None}

    def reply(i, tok):
        state["n"] += 1
        if state["n"] == case["cancel_at"]:
            state["exc"] = UserBaseExc(801)
            return ("throw", state["exc"])
        return ("send", None)
    res = drive((_nested_block if nested else _stack_block)(cms, case["body"]), reply)
    return {"log": log, "out": exc_name(res.exc), "same": res.exc is state["exc"] if state["exc"] is not None else None}


def _stack_cases():
    for n in range(1, 5):
        for body in (None, 6):
            for at in range(1, n + 1):
                yield {"tool": "exitstack", "family": "exitstack", "n": n, "body": body, "cancel_at": at, "srcs": [], "params": {}}


def _stack_model(case):
    # exits run last-registered first: the at-th exit to run (entry n+1-at) raises the cancellation, the others are falsy
    hit = case["n"] + 1 - case["cancel_at"]
    ents = {str(i): {"cb": False, "none": "R801" if i == hit else "F", "some": "R801" if i == hit else "F"}
            for i in range(1, case["n"] + 1)}
    return {"m": "exitstack", "mode": "unwind", "entries": ents, "stack": list(range(1, case["n"] + 1)), "body": case["body"]}


def _suspending(case):
    c = copy.deepcopy(case)
    for s in c["srcs"]:
        s["susp"] = 1
    for f in c.get("fns", []):
        if f.get("flavour", "def") == "def":
            f["flavour"] = "async"
        f["susp"] = 1
    return c


def cases(tier, rng):
    L = 2 if tier == "quick" else 3
    for case in s1.base_cases(tier, rng, s1.KINDS_ASYNC, s1.cons_exhaust, maxlen=L):
        if case["tool"] == "islice" and (case["params"].get("step", 1) > 1 or (case["params"].get("stop") or 0) > 2):
            continue
        if case["tool"] == "cycle":
            case = dict(case, cons={"fin": "close", "take": 2 * sum(len(s["script"]) for s in case["srcs"]) + 1})
        yield _suspending(case)
    for case in s1.random_cases(tier, rng, s1.KINDS_ASYNC, 150 if tier == "quick" else 3000, cons_kinds=("exhaust", "close")):
        yield _suspending(case)
    yield from _stack_cases()
    # cancellation while a manager's `__aenter__` (or an exit, or the block) is suspended: Machines/ExitStackEnter.lean
    for case in fam_enter_susp.cases(rng, 1200 if tier == "quick" else 15000):
        if any(op[0] == "x" for op in case["ops"]):
            yield dict(case, family="entersusp", tool="exitstack")
    # D17 family: the user's aclose() itself suspends and the cancellation lands inside it, in a multi-source cleanup loop
    for tool, params in (("zip", {}), ("zip_longest", {"fill": None}), ("map", {}), ("merge", {})):
        for n in (2, 3):
            srcs = [{"kind": "aobj", "script": [["o", 10 * i + j, j] for j in range(2)], "close_susp": 1} for i in range(n)]
            fns = [{"kind": "pair", "flavour": "def"}] if tool == "map" else []
            yield {"tool": tool, "params": params, "srcs": srcs, "fns": fns, "cons": {"fin": "close", "take": 1}, "family": "close-susp"}


def observe(case):
    if case.get("family") == "entersusp":
        return dict(fam_enter_susp.observe(case), n=len(case["ops"]))
    if case.get("family") == "exitstack":
        return {"n": case["n"], "impl": _run_stack(case, False), "nested": _run_stack(case, True), "runs": []}
    base = run_async(case)
    n = len(base["tokens"])
    runs = []
    for j in range(1, n + 1):
        c = dict(case, cancel_at=j)
        r = run_async(c)
        runs.append({"at": j, "token": r.get("cancel_token"), "out": r["out"], "same": r.get("cancel_same_object"),
                     "srcs": r.get("srcs_after_owner_close", r["srcs"]), "close_exc": r.get("owner_close_exc")})
    return {"n": n, "base_out": base["out"], "runs": runs, "async": {"out": base["out"], "vis": base["vis"]}}


def _model_case(case, token):
    """the cancellation at `token` as a fault of that source / callable at that use (see Properties/C18.lean)"""
    c = copy.deepcopy(case)
    if token[0] == "src":
        _, name, pulls, _ = token
        c["srcs"][name]["script"].insert(pulls, ["!", 888])
    elif token[0] == "fn":
        _, idx, n, _ = token
        c["fns"][idx]["fail_at"] = n
        c["fns"][idx]["eid"] = 888
    else:
        return None
    return c


def model_request(case):
    return None


def model_requests(case, obs):
    """one model run per cancellation point: the cancellation as a fault at that use"""
    if case.get("family") == "entersusp":
        return [fam_enter_susp.model_request(case)]
    if case.get("family") == "exitstack":
        return [_stack_model(case)]
    out = []
    for r in obs["runs"]:
        mc = _model_case(case, r["token"]) if r["token"] else None
        out.append(tools.model_request(mc) if mc is not None and case["tool"] not in s1.NO_MODEL else {"m": "tool", "tool": "?"})
    return out


def judge(case, obs, model):
    issues = []
    if case.get("family") == "entersusp":
        return fam_enter_susp.judge(case, obs, model[0] if model else None)
    if case.get("family") == "exitstack":
        a, ref = obs["impl"], obs["nested"]
        ran = [i for i, _ in a["log"]]
        if sorted(ran) != list(range(1, case["n"] + 1)):
            issues.append(Issue("oracle", {"log": a["log"]}, "exitstack-exits-skipped-on-cancellation"))
        elif a["out"] != ["user", 801] or a["same"] is False:
            issues.append(Issue("oracle", {"out": a["out"], "same": a["same"]}, "exitstack-cancellation-not-propagated"))
        elif a != ref:
            issues.append(Issue("oracle", {"impl": a, "nested": ref}, "exitstack-cancellation-differs-from-nested"))
        if model and "error" not in model[0]:
            m = model[0]["impl"]
            if m["log"] != a["log"] or m["out"] != 801:
                issues.append(Issue("A", {"impl": a, "model": m}))
        return issues
    for k, r in enumerate(obs["runs"]):
        tag_tool = case["tool"]
        m = model[k] if model else None
        if m is not None and "error" not in m and case.get("family") != "close-susp":
            if m["impl"]["out"] != ["raised", ["user", 888]]:
                issues.append(Issue("A", {"at": r["at"], "model_out": m["impl"]["out"], "token": r["token"]}))
            elif [s["released"] for s in m["impl"]["srcs"]] != [s["released"] for s in r["srcs"]] and case["tool"] != "chain":
                issues.append(Issue("A", {"at": r["at"], "asyncstdlib": r["srcs"], "model": m["impl"]["srcs"]}))
        if r["out"][0] != "raised" or r["out"][1][0] != "user" or r["out"][1][1] != 800 + r["at"]:
            issues.append(Issue("oracle", {"at": r["at"], "token": r["token"], "out": r["out"]}, "cancellation-not-propagated:" + tag_tool))
        elif r["same"] is False:
            issues.append(Issue("oracle", {"at": r["at"], "out": r["out"]}, "cancellation-replaced-by-copy:" + tag_tool))
        leaked = [i for i, s in enumerate(r["srcs"]) if s["released"] is False]
        if r["token"] and r["token"][0] == "close":
            # the library did call aclose() on that source; that the user's aclose() let the cancellation interrupt it
            # before it finished is the user's code - every OTHER source must be released
            leaked = [i for i in leaked if i != r["token"][1]]
        if leaked and r["token"] and r["token"][0] == "close":
            issues.append(Issue("oracle", {"at": r["at"], "token": r["token"], "leaked": leaked},
                                "source-leaked-cancel-inside-user-aclose:" + tag_tool))
        elif leaked:
            started = "started" if any(r["srcs"][i]["pulls"] > 0 or r["token"][:2] == ["src", i] for i in leaked) else "never-started"
            issues.append(Issue("oracle", {"at": r["at"], "token": r["token"], "leaked": leaked, "srcs": r["srcs"]},
                                "source-leaked-after-cancellation:%s:%s" % (tag_tool, started)))
        if r["close_exc"] is not None:
            issues.append(Issue("oracle", {"at": r["at"], "close_exc": r["close_exc"]}, "owner-close-failed:" + tag_tool))
    return issues


def nontrivial(case, obs):
    return obs["n"] >= 1


def features(case, obs):  # noqa: F811
    if case.get("family") == "entersusp":
        return ["tool=exitstack"] + fam_enter_susp.features(case, obs)
    if case.get("family") == "exitstack":
        return ["tool=exitstack", "points=%d" % case["n"]]
    return ["tool=" + case["tool"], "points=%d" % min(obs["n"], 9)] + ["kind=" + s["kind"] for s in case["srcs"]]


def search_cases(broken, rng):
    yield from cases("quick", rng)
