"""C08 — scoped_iter keeps an iterator alive for the block and closes it exactly at exit.

Shares the interpreter, the machine translation and the oracle with C07 (`props/c07.py`); this
module adds the block-shaped case families, the run through literal `async with` statements, and
the shared-synchronous-iterator reference (real stdlib tools on one shared `iter()`).
"""
import builtins
import itertools

from framework import Issue
import world
from world import UserBaseExc, UserExc, asyncstdlib, drive
from props import c07
from props.c07 import (CANCEL, INFINITE, TOOL_NAMES, TOOLS, U_KINDS, Run, features, mk_u,  # noqa: F401
                       model_request, nontrivial, random_seq)

A = asyncstdlib

RULE = (
    "blocks `async with scoped_iter(U) as s:` whose body is a sequence of operations on the handles of the open "
    "scopes: every ordered pair of library tools (each: take j, then close / exhaust / abandon) plus seeded triples, "
    "nested scopes over the scoped handle to depth 3 with every exit order and every exit mode (fall-through, "
    "exception, cancellation), pulls cancelled at the suspension inside U followed by exit-by-cancellation, faults "
    "in U's script raised through the handle, then probes of every handle and of U after the exit; plus random "
    "operation sequences mixing borrowed and scoped handles, iterators without aclose (nullcontext), non-LIFO exits. "
    "Each case runs (1) with hand-called __aenter__/__aexit__, (2) where well nested, again through literal "
    "`async with` statements, (3) where fault-free, against one shared synchronous iterator and the stdlib tools. "
    "non-trivial = an item was delivered through a scoped handle and a scope was left; distinct by case content"
)
EXHAUSTIVE = {"quick": True, "thorough": True}
SCOPE = {"quick": "all ordered pairs of the 44 tool bindings in one block; nesting depth 1..3 x all exit orders x 3 exit "
                  "modes x 3 body shapes; 2000 random sequences",
         "thorough": "all ordered pairs x 3 (take, fin) variants, all triples of a 12-tool subset; nesting depth 1..3 x all "
                     "exit orders x all exit-mode assignments x 6 body shapes; 120000 random sequences"}
ASSUMPTIONS = c07.ASSUMPTIONS + [
    "the block is left only when no operation on its handle is in flight in another task",
    "two scopes opened directly on the same underlying iterator (not through the scoped handle) each close it: "
    "'outermost' means the scope opened on the iterator itself, inner scopes are opened on the scoped handle",
]
TRUSTED = c07.TRUSTED


class WithRun(Run):
    """the same case, but scopes are literal `async with` statements inside one coroutine that is
    driven by hand; a cancelled pull directly before an exit-by-cancellation is awaited in the
    block itself, so the cancellation really travels from the suspension inside U through the
    handle and out of the `async with` statement"""

    def __init__(self, case):
        super().__init__(case)
        self.armed = False

    def _reply(self, i, tok):
        if self.armed and isinstance(tok, list) and tok and tok[0] == "src":
            self.armed = False
            return ("throw", UserBaseExc(CANCEL))
        return ("send", ("r", tok))

    def _rec(self, out, n0, mop):
        self.recs.append({"out": out, "seg": self.log[n0:], "dead": c07.u_dead(self.spec, self.u)})
        self.mops.append(mop)

    async def _block(self, i):
        ops = self.case["ops"]
        op = ops[i]
        obj = self.obj(op[1])
        cm = A.scoped_iter(obj)
        n0 = len(self.log)
        my = len(self.C)
        state = {}
        try:
            async with cm as val:
                if val is obj:
                    self.C.append((cm, op[1], None))
                    self._rec(["entered", my, None], n0, op)
                else:
                    self.H.append(val)
                    self.C.append((cm, op[1], len(self.H) - 1))
                    self._rec(["entered", my, len(self.H) - 1], n0, op)
                i += 1
                while True:
                    op = ops[i]
                    if op[0] == "exit" and op[1] == my:
                        state["i"], state["n0"], state["mode"] = i, len(self.log), op[2]
                        if op[2] == "cancel":
                            raise UserBaseExc(CANCEL)
                        if op[2] != "normal":
                            raise UserExc(op[2][1])
                        break
                    if op[0] == "enter":
                        i = await self._block(i)
                        continue
                    nxt = ops[i + 1] if i + 1 < len(ops) else None
                    if (op[0] == "ncancel" and nxt is not None and nxt[0] == "exit" and nxt[1] == my
                            and nxt[2] == "cancel" and self.valid(op[1])):
                        # the cancellation leaves the block from the real suspension point
                        n1 = len(self.log)
                        self.armed = True
                        try:
                            v = await builtins.anext(self.obj(op[1]))
                        except StopAsyncIteration:
                            self.armed = False
                            self._rec("stop", n1, op)
                            i += 1
                            continue
                        except UserBaseExc:
                            self._rec("cancelled", n1, op)
                            state["i"], state["n0"], state["mode"] = i + 1, len(self.log), "cancel"
                            raise
                        self.armed = False
                        self._rec(["item", v.id], n1, op)
                        i += 1
                        continue
                    self.perform(op)
                    i += 1
        except (UserExc, UserBaseExc) as exc:
            if "i" not in state:
                raise
            state["propagated"] = exc
        mode = state["mode"]
        out = "ok" if (mode == "normal" or "propagated" in state) else "suppressed"
        self._rec(out, state["n0"], ops[state["i"]])
        return state["i"] + 1

    def run(self):
        ops = self.case["ops"]
        res = drive(self._block(0), self._reply)
        if res.exc is not None:
            raise res.exc
        done = res.value
        for op in ops[done:]:
            self.perform(op)
        return {"ops": self.recs}


# ---- exits during which the underlying iterator's own aclose() fails, suspends or is cancelled ---------------------
# "When the block is left ... the scoped handle yields nothing further" must hold whatever the source's aclose() does.


class _BadCloseSource:
    """class-based async iterator whose aclose() raises / suspends (and may be cancelled there); it stays usable"""

    def __init__(self, n, mode):
        self.i, self.n, self.mode, self.closes = 0, n, mode, 0

    def __aiter__(self):
        return self

    async def __anext__(self):
        if self.i >= self.n:
            raise StopAsyncIteration
        self.i += 1
        return self.i - 1

    async def aclose(self):
        self.closes += 1
        if self.mode == "raise":
            raise world.UserExc(31)
        await world.Susp(["u", "aclose"])


def _observe_badclose(case):
    from world import asyncstdlib, drive, exc_name
    src = _BadCloseSource(6, case["mode"])
    handles = []

    async def block(depth):
        async with asyncstdlib.scoped_iter(src if depth == 0 else handles[-1]) as it:
            handles.append(it)
            await it.__anext__()
            if depth + 1 < case["depth"]:
                await block(depth + 1)

    def reply(i, tok):
        if case["mode"] == "cancel":
            return ("throw", world.UserBaseExc(32))
        return ("send", None)
    res = drive(block(0), reply)
    after = []
    for h in handles:
        r = drive(h.__anext__())
        after.append("stop" if isinstance(r.exc, StopAsyncIteration) else (["item", r.value] if r.exc is None else ["exc", exc_name(r.exc)]))
    # tools handed the retired outer handle must see nothing either
    r = drive(asyncstdlib.list(asyncstdlib.islice(handles[0], 2)))
    return {"badclose": {"exit": exc_name(res.exc), "after": after, "tool_after": r.value if r.exc is None else ["exc", exc_name(r.exc)],
                         "closes": src.closes, "consumed": src.i}}


# ---- scoped_iter over REGULAR (synchronous) iterables: the scope owns the adapter the library builds around them ---------
# Oracle-only: inside the block the handle behaves like a shared synchronous iterator, after the block it yields nothing,
# and a one-shot synchronous iterator is not advanced beyond what was taken through the handle.


def _syncsrc_cases():
    for src in ("list", "range", "iter", "gen"):
        for depth in (1, 2):
            for taken in (0, 1, 2):
                for mode in ("normal", "exc"):
                    yield {"family": "syncsrc", "src": src, "depth": depth, "taken": taken, "mode": mode}


def _observe_syncsrc(case):
    from world import asyncstdlib, drive, exc_name
    pulled = []

    def gen():
        for i in range(6):
            pulled.append(i)
            yield i
    src = {"list": lambda: [0, 1, 2, 3, 4, 5], "range": lambda: range(6), "iter": lambda: iter([0, 1, 2, 3, 4, 5]), "gen": gen}[case["src"]]()
    handles, got = [], []

    async def block(depth):
        async with asyncstdlib.scoped_iter(src if depth == 0 else handles[-1]) as it:
            handles.append(it)
            for _ in range(case["taken"]):
                got.append(await it.__anext__())
            if depth + 1 < case["depth"]:
                await block(depth + 1)
            elif case["mode"] == "exc":
                raise world.UserExc(33)
    res = drive(block(0))
    after = []
    for h in handles:
        r = drive(h.__anext__())
        after.append("stop" if isinstance(r.exc, StopAsyncIteration) else (["item", r.value] if r.exc is None else ["exc", exc_name(r.exc)]))
    r = drive(asyncstdlib.list(asyncstdlib.islice(handles[0], 2)))
    return {"syncsrc": {"exit": exc_name(res.exc), "got": got, "after": after,
                        "tool_after": r.value if r.exc is None else ["exc", exc_name(r.exc)],
                        "pulled": list(pulled) if case["src"] == "gen" else None}}


def observe(case):
    if case.get("family") == "syncsrc":
        return _observe_syncsrc(case)
    if case.get("family") == "badclose":
        return _observe_badclose(case)
    obs = c07.observe(case)
    if case.get("with"):
        try:
            obs["with_ops"] = WithRun(case).run()["ops"]
        except Exception as exc:  # the library raised where the block expects no exception
            obs["with_error"] = "%s: %s" % (type(exc).__name__, str(exc)[:120])
    return obs


def judge(case, obs, model):
    if case.get("family") == "syncsrc":
        b = obs["syncsrc"]
        issues = []
        n = case["depth"] * case["taken"]
        if b["got"] != list(range(n)):
            issues.append(Issue("oracle", b, "scoped-handle-over-sync-iterable-delivers-wrong-items"))
        if any(a != "stop" for a in b["after"]) or b["tool_after"] not in ([], ["exc", ["lib", "StopAsyncIteration"]]):
            issues.append(Issue("oracle", b, "scoped-handle-over-sync-iterable-yields-after-exit"))
        if b["exit"] != (["user", 33] if case["mode"] == "exc" else None):
            issues.append(Issue("oracle", b, "scope-over-sync-iterable-changes-the-block-outcome"))
        if b["pulled"] is not None and b["pulled"] != list(range(n)):
            issues.append(Issue("oracle", b, "sync-generator-advanced-beyond-what-was-taken"))
        return issues
    if case.get("family") == "badclose":
        b = obs["badclose"]
        issues = []
        if any(a != "stop" for a in b["after"]) or b["tool_after"] not in ([], ["exc", ["lib", "StopAsyncIteration"]]):
            issues.append(Issue("oracle", b, "scoped-handle-yields-after-exit-with-failing-aclose"))
        if b["closes"] != 1:
            issues.append(Issue("oracle", b, "scope-exit-closes-%d-times" % b["closes"]))
        if model is not None:
            if "error" in model:
                issues.append(Issue("A", model))
            elif model != b:
                issues.append(Issue("A", {"asyncstdlib": b, "model": model}))
        return issues
    issues = c07.judge(case, obs, model)
    if "with_error" in obs:
        issues.append(Issue("oracle", {"error": obs["with_error"]}, "library-error-in-async-with-block"))
    if "with_ops" in obs:
        a = [(r["out"], r["seg"], r["dead"]) for r in obs["ops"]]
        b = [(r["out"], r["seg"], r["dead"]) for r in obs["with_ops"]]
        if a != b:
            first = next((i for i, (x, y) in enumerate(zip(a, b)) if x != y), min(len(a), len(b)))
            issues.append(Issue("oracle", {"op_index": first, "manual": a[first:first + 1], "async_with": b[first:first + 1]},
                                "async-with-statement-differs-from-hand-called-aenter-aexit"))
    return issues


# ---------------------------------------------------------------------------------------------
# case generation

CLOSE_KINDS = [k for k in U_KINDS if k["kind"] == "agen" or k.get("close")]
MODES = ["normal", "cancel", ["exc", 31]]


def _tool(name, take, fin):
    if name in INFINITE and fin == "exhaust":
        fin = "close"
    return {"name": name, "take": take, "fin": fin, "p": {"n": 2}}


def _probes(nh):
    return [["next", h] for h in range(nh)] + [["send", 0], ["next", None]]


def nesting_cases(quick):
    """depth 1..3, every exit order, exit modes, a few body shapes; ops only on open scopes' handles"""
    bodies = [
        lambda h: [["next", h]],
        lambda h: [["tool", h, _tool("islice", 1, "close")]],
        lambda h: [["tool", h, _tool("pairwise", 1, "abandon")], ["next", h]],
    ]
    if not quick:
        bodies += [
            lambda h: [["tool", h, _tool("list", 0, "exhaust")]],
            lambda h: [["tool", h, _tool("zip2", 1, "close")], ["citer", h]],
            lambda h: [["close", h], ["next", h]],
        ]
    for depth in (1, 2, 3):
        for order in itertools.permutations(range(depth)):
            mode_sets = itertools.product(MODES, repeat=depth) if not quick else [
                tuple(MODES[(i + sum(order)) % 3] for i in range(depth)), tuple(MODES[(i + 1) % 3] for i in range(depth))]
            for modes in mode_sets:
                for bi, body in enumerate(bodies):
                    ops = []
                    for d in range(depth):
                        ops.append(["enter", None if d == 0 else d - 1])
                        ops += body(d)
                    open_ = list(range(depth))
                    lifo = list(order) == list(reversed(range(depth)))
                    for c, m in zip(order, modes):
                        ops.append(["exit", c, m])
                        open_.remove(c)
                        if open_ and 0 in open_:
                            ops += body(max(open_) if lifo else min(open_))
                    ops += _probes(depth)
                    for ki, kind in enumerate(CLOSE_KINDS):
                        if quick and (ki + bi + depth) % 2:
                            continue
                        case = {"u": mk_u(kind, 8), "ops": ops}
                        # the reference knows nothing of dead inner handles: only use it when every
                        # operation before the outermost exit targets a handle of a still-open scope
                        case["ref"] = _ref_ok(ops)
                        if lifo:
                            case["with"] = True
                        yield case


def _ref_ok(ops):
    open_handles, ctx_handle, nh, nc, outer_done = set(), {}, 0, 0, False
    for op in ops:
        if op[0] == "enter":
            ctx_handle[nc] = nh
            open_handles.add(nh)
            nh += 1
            nc += 1
        elif op[0] == "exit":
            open_handles.discard(ctx_handle[op[1]])
            if op[1] == 0:
                outer_done = True
        elif op[0] in ("next", "tool"):
            if op[1] is None:
                if not outer_done:
                    return False
            elif not outer_done and op[1] not in open_handles:
                return False
        elif op[0] in ("send", "borrow", "ncancel"):
            if not outer_done:
                return False
    return True


def pair_cases(quick, rng):
    fins = ["close", "exhaust", "abandon"]
    n = 0
    for t1 in TOOL_NAMES:
        for t2 in TOOL_NAMES:
            variants = [(n % 3, (n // 3) % 3)] if quick else [(0, 0), (1, 1), (2, 2)]
            for take, f in variants:
                n += 1
                kind = CLOSE_KINDS[n % len(CLOSE_KINDS)]
                ops = [["enter", None], ["tool", 0, _tool(t1, take, fins[f])], ["tool", 0, _tool(t2, (take + 1) % 3, fins[(f + n) % 3])],
                       ["next", 0], ["exit", 0, MODES[n % 3]]] + _probes(1)
                yield {"u": mk_u(kind, 9), "ops": ops, "ref": True, "with": True}
    if not quick:
        sub = ["islice", "islice4", "islice5", "filter", "zip2", "pairwise", "batched", "tee", "groupby", "list", "anext", "chain2", "takewhile", "merge"]
        for t1, t2, t3 in itertools.product(sub, repeat=3):
            n += 1
            ops = [["enter", None], ["tool", 0, _tool(t1, n % 3, fins[n % 3])], ["tool", 0, _tool(t2, (n // 3) % 3, fins[(n // 3) % 3])],
                   ["tool", 0, _tool(t3, 1, "close")], ["exit", 0, MODES[n % 3]]] + _probes(1)
            yield {"u": mk_u(CLOSE_KINDS[n % len(CLOSE_KINDS)], 10), "ops": ops, "ref": True, "with": True}


def exceptional_cases(quick):
    """leaving the block by an exception that came through the handle, and by a cancellation thrown at the
    suspension inside U while the block (or a tool inside it) was pulling"""
    susp_kinds = [k for k in CLOSE_KINDS if k.get("susp")]
    for kind in susp_kinds:
        for pre in range(0, 3):
            for mode in MODES:
                base = [["enter", None]] + [["next", 0]] * pre
                yield {"u": mk_u(kind, 5), "ops": base + [["ncancel", 0], ["exit", 0, mode]] + _probes(1), "with": True}
                yield {"u": mk_u(kind, 5), "ops": base + [["enter", 0], ["ncancel", 1], ["exit", 1, "cancel"],
                                                         ["next", 0], ["exit", 0, mode]] + _probes(2), "with": True}
                for name in (TOOL_NAMES if not quick else TOOL_NAMES[pre::3]):
                    yield {"u": mk_u(kind, 6), "ops": base + [["tool", 0, _tool(name, pre, "cancel")], ["next", 0],
                                                             ["exit", 0, mode]] + _probes(1), "with": True}
    for kind in CLOSE_KINDS:
        for fault in range(0, 3):
            for mode in MODES:
                yield {"u": mk_u(kind, 5, faults=(fault,)), "with": True,
                       "ops": [["enter", None]] + [["next", 0]] * (fault + 1) + [["next", 0], ["exit", 0, mode]] + _probes(1)}
                yield {"u": mk_u(kind, 5, faults=(fault,)), "with": True,
                       "ops": [["enter", None], ["tool", 0, _tool("list", 0, "exhaust")], ["next", 0], ["exit", 0, mode]] + _probes(1)}
    # iterators without aclose: nullcontext, nothing is closed, the "handle" is the iterator itself
    for kind in U_KINDS:
        if kind["kind"] == "obj" and not kind.get("close"):
            for mode in MODES:
                yield {"u": mk_u(kind, 4), "ops": [["enter", None], ["next", None], ["borrow", None], ["tool", 0, _tool("islice", 1, "close")],
                                                  ["exit", 0, mode], ["next", None], ["next", 0]]}
    # a scope over a borrowed handle closes the borrowed handle, not the underlying iterator
    for kind in U_KINDS:
        for mode in MODES:
            yield {"u": mk_u(kind, 5), "ops": [["borrow", None], ["enter", 0], ["next", 1], ["tool", 1, _tool("zip2", 1, "close")],
                                              ["next", 1], ["exit", 0, mode], ["next", 1], ["next", 0], ["send", 0], ["next", None]]}


def cases(tier, rng):
    quick = tier == "quick"
    yield from _syncsrc_cases()
    for mode in ("raise", "suspend", "cancel"):
        for depth in (1, 2, 3):
            yield {"family": "badclose", "mode": mode, "depth": depth}
    yield from nesting_cases(quick)
    yield from pair_cases(quick, rng)
    yield from exceptional_cases(quick)
    for _ in range(2000 if quick else 120000):
        kind = rng.choice(U_KINDS)
        nitems = rng.randint(0, 8)
        faults = tuple(j for j in range(nitems) if rng.random() < 0.08)
        yield {"u": mk_u(kind, nitems, faults), "ops": random_seq(rng, rng.randint(2, 10 if quick else 14),
                                                                 bool(kind.get("susp")), scopes=True,
                                                                 has_close=kind["kind"] == "agen" or bool(kind.get("close")))}


def search_cases(broken, rng):
    yield from c07.search_cases(broken, rng)
    yield from nesting_cases(True)
    yield from exceptional_cases(True)


_c07_model_request = c07.model_request
_c07_features = c07.features
_c07_nontrivial = c07.nontrivial


def model_request(case):  # noqa: F811
    if case.get("family") == "syncsrc":
        return None
    if case.get("family") == "badclose":
        # Machines/ScopeExit.lean: the nest of scopes left while the underlying aclose() raises / is cancelled / suspends
        return {"m": "scopeexit", "depth": case["depth"], "n": 6, "mode": case["mode"], "taken": 1}
    return _c07_model_request(case)


def features(case, obs):  # noqa: F811
    if case.get("family") == "syncsrc":
        return ["family=syncsrc", "src=" + case["src"], "mode=" + case["mode"]]
    if case.get("family") == "badclose":
        return ["family=badclose", "mode=" + case["mode"]]
    return _c07_features(case, obs)


def nontrivial(case, obs):  # noqa: F811
    if case.get("family") in ("badclose", "syncsrc"):
        return True
    return _c07_nontrivial(case, obs)
