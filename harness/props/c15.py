"""C15 — context managers as decorators wrap every call in a fresh, paired context.

The real `asyncstdlib.contextmanager`-created manager (and a class-based `asyncstdlib.ContextDecorator`)
decorates a scripted coroutine function; 1..5 calls of it are driven by hand under an explicit
schedule (one `send`/`throw` on a chosen task = one `Op.sched` / `Op.cancel` of the Lean machine).
The same case runs on `contextlib.asynccontextmanager` / `contextlib.AsyncContextDecorator`.
"""
import contextlib
import functools
import itertools
import sys
import warnings

from framework import Issue
from world import Susp, UserBaseExc, UserExc, asyncstdlib

warnings.simplefilter("ignore")
sys.unraisablehook = lambda *a: None   # generators abandoned at a yield complain when collected

RULE = (
    "a case = manager kind (generator-based via contextmanager / class-based ContextDecorator) x one scripted "
    "behaviour per call (generator: suspensions and yield|raise|return before the yield, suspensions and "
    "stop|yield again|raise after a normal resume, suspensions and re-raise|swallow|raise new|raise the same object|"
    "yield again after a throw; class: enter ok|raise, exit falsy|truthy|raise new|re-raise for no exception and for an "
    "exception; body: suspensions and return|raise) x a schedule of send/throw operations on 1..5 concurrent calls, "
    "always drained to completion. Exhaustive: every behaviour of a single call x every cancellation point; every "
    "interleaving of 2 calls over a covering set of behaviours; then seeded random interleavings with cancellations "
    "of 2..4 calls and sequential repetition of 1..5 calls. non-trivial = at least one call entered its context; "
    "distinct by case content"
)
EXHAUSTIVE = {"quick": True, "thorough": True}
SCOPE = {
    "quick": "single call: full behaviour grid x every cancellation point; 2 calls: all interleavings over a covering "
             "set of 8 generator / 6 class behaviours; random: 2500 interleavings of 2..4 calls, 300 sequential runs",
    "thorough": "single call: full grid x every cancellation point; 2 calls: all interleavings over 16/10 behaviours, "
                "plus one cancellation at every position for a subset; 3 calls: all interleavings over 3 behaviours; "
                "random: 60000 interleavings of 2..4 calls, 3000 sequential runs",
}
ASSUMPTIONS = [
    "injected exceptions are not StopIteration / StopAsyncIteration / GeneratorExit (those are C13's subject)",
    "scripted user code does not catch an exception thrown at one of its inner suspension points",
    "__context__/__traceback__ and RuntimeError message texts are not compared",
    "the ghost event `exited` (what __aexit__ answered) exists only in the model and is not compared",
    "which task is running is visible to user code (the harness sets it before every send): a generator picks the "
    "script of the call that starts it",
]
TRUSTED = [
    "C15: Python semantics of async generators (genAdvance), including `already running` and athrow on a finished "
    "generator, are modelled; the reachable part is exercised by every case, the unreachable part by kind=gensem cases",
]

MGR_ARGS, MGR_KW = ("A",), {"k": "K"}


class _Run:
    """one execution of a case on one library"""

    def __init__(self, case):
        self.case = case
        self.log = []
        self.cur = None
        self.ninst = 0
        self.excs = {}

    def exc(self, eid, base=False):
        if eid not in self.excs:
            self.excs[eid] = UserBaseExc(eid) if base else UserExc(eid)
        return self.excs[eid]

    def name(self, exc):
        if exc is None:
            return None
        eid = getattr(exc, "eid", None)
        if eid is not None:
            if self.excs.get(eid) is not exc:
                return ["user", eid, "COPY"]
            return ["user", eid]
        return ["lib", type(exc).__name__]


def _code(code):
    return int(code[1:])


def _build_gen(run, lib):
    calls = run.case["calls"]

    async def _ctx(inst, argsok):
        c = run.cur
        prog = calls[c]["gen"]
        run.log.append([c, inst, "enter"] if argsok else [c, inst, "enter", "BAD-ARGS"])
        for j in range(prog["preSusp"]):
            await Susp(["enter", c, j])
        pre = prog["pre"]
        if pre == "S":
            return
        if pre != "Y":
            raise run.exc(_code(pre))
        run.log.append([c, inst, "entered"])
        try:
            yield ["ctx", inst]
        except BaseException as exc:  # noqa: B036 - the scripted handler reacts to everything
            c2 = run.cur
            run.log.append([c2, inst, "exit", run.name(exc)])
            for j in range(prog["thrSusp"]):
                await Susp(["exit", c2, j])
            thr = prog["thr"]
            if thr == "P":
                raise
            if thr == "W":
                return
            if thr == "Y":
                yield ["again", inst]
                return
            raise run.exc(_code(thr))
        else:
            c2 = run.cur
            run.log.append([c2, inst, "exit", None])
            for j in range(prog["postSusp"]):
                await Susp(["exit", c2, j])
            post = prog["post"]
            if post == "S":
                return
            if post == "Y":
                yield ["again", inst]
                return
            raise run.exc(_code(post))

    def factory(*args, **kwds):
        inst = run.ninst
        run.ninst += 1
        return _ctx(inst, args == MGR_ARGS and kwds == MGR_KW)

    deco = asyncstdlib.contextmanager if lib == "impl" else contextlib.asynccontextmanager
    return deco(factory)(*MGR_ARGS, **MGR_KW)


def _build_plain(run, lib):
    calls = run.case["calls"]
    base = asyncstdlib.ContextDecorator if lib == "impl" else contextlib.AsyncContextDecorator

    class Plain(base):
        def __len__(self):      # a context manager object may be falsy (a container that is also a context manager)
            return 0

        async def __aenter__(self):
            c = run.cur
            prog = calls[c]["plain"]
            run.log.append([c, None, "enter"])
            for j in range(prog["enterSusp"]):
                await Susp(["enter", c, j])
            if prog["enter"] != "K":
                raise run.exc(_code(prog["enter"]))
            run.log.append([c, None, "entered"])
            return self

        async def __aexit__(self, et, ev, tb):
            c = run.cur
            prog = calls[c]["plain"]
            run.log.append([c, None, "exit", run.name(ev)])
            for j in range(prog["exitSusp"]):
                await Susp(["exit", c, j])
            act = prog["exitSome"] if ev is not None else prog["exitNone"]
            if act == "F":
                return False
            if act == "T":
                return True
            if act == "S":
                if ev is not None:
                    raise ev
                return False
            raise run.exc(_code(act))

    return Plain()


# keyword arguments of every call: names a wrapper implementation is likely to use for its own parameters
CALL_KW = {"func": 1, "self": 2, "cm": 3, "args": 4, "kwds": 5, "function": 6, "instance": 7}


def _decorated(run, lib):
    calls = run.case["calls"]
    cm = _build_gen(run, lib) if run.case["gb"] else _build_plain(run, lib)

    async def func(c, *rest, **kw):
        ok = rest == ("r",) and kw == dict(CALL_KW, kw=c)
        run.log.append([c, None, "bodyBegin"] if ok else [c, None, "bodyBegin", "BAD-ARGS"])
        cfg = calls[c]
        try:
            for j in range(cfg["bodySusp"]):
                await Susp(["body", c, j])
        except BaseException as exc:  # noqa: B036 - log and let it through
            run.log.append([c, None, "bodyEnd", ["exc", run.name(exc)]])
            raise
        body = cfg["body"]
        if body[0] == "V":
            run.log.append([c, None, "bodyEnd", ["ret", _code(body)]])
            return ["v", c, _code(body)]
        run.log.append([c, None, "bodyEnd", ["exc", ["user", _code(body)]]])
        raise run.exc(_code(body))

    async def func2(c, *rest, **kw):
        return await func(c, *rest, **kw)

    class AsyncCallObj:                      # an object whose `__call__` is `async def`: not a coroutine FUNCTION
        async def __call__(self, c, /, *rest, **kw):
            return await func(c, *rest, **kw)

    @functools.wraps(func)
    def plain_wrapper(c, *rest, **kw):       # an `async def` below another decorator whose wrapper is a plain `def`
        return func(c, *rest, **kw)

    class _Done:                             # an awaitable that is complete already
        def __init__(self, value):
            self.value = value

        def __await__(self):
            return self.value
            yield

    def eager(c, *rest, **kw):               # a plain `def` doing its work (or failing) when CALLED, if it need not suspend
        co = func(c, *rest, **kw)
        if calls[c]["bodySusp"]:
            return co
        try:
            co.send(None)
        except StopIteration as stop:
            return _Done(stop.value)
        raise AssertionError("unreachable: a body without suspensions finishes at once")

    # ONE manager object decorates SEVERAL callables (`traced = ctx(); @traced def f...; @traced def g...`): calls of any
    # of them must each get a fresh context, whichever is called first; the callables come in every awaitable-returning
    # flavour (the decorator must await what the call returns, whatever `iscoroutinefunction` says about the callable)
    wrapped = (cm(func), cm(eager), cm(AsyncCallObj()), cm(plain_wrapper), cm(functools.partial(func2)))

    def call(c, *rest, **kw):
        return wrapped[c % len(wrapped)](c, *rest, **kw)

    call.cm = cm
    return call


def _direct_use(run, cm):
    """the manager object the decorators were made from is ALSO used once directly (`async with traced: ...`) - its single
    legal direct use for a generator-based manager; the decorated callables must not notice (events logged apart)"""
    async def use():
        async with cm:
            pass
    saved, run.log, cur = run.log, [], run.cur
    run.cur = 0
    co = use()
    try:
        while True:
            co.send(None)
    except StopIteration as stop:
        res = ["ret", stop.value]
    except BaseException as exc:  # noqa: B036 - whatever the scripted manager of call 0 does when used directly
        res = ["exc", run.name(exc)]
    run.direct = {"log": [list(e) for e in run.log], "res": res}
    run.log, run.cur = saved, cur


def _execute(case, lib, only=None):
    """run the schedule (restricted to call `only` if given) on the real library"""
    run = _Run(case)
    func = _decorated(run, lib)
    n = len(case["calls"])
    coros = [func(c, "r", **dict(CALL_KW, kw=c)) for c in range(n)]
    done = [False] * n
    outs = []
    direct_at = case.get("direct_at") if lib == "impl" else None    # contextlib's managers forget their arguments when entered
    for n_op, op in enumerate(case["ops"]):
        c = op[1]
        if n_op == direct_at:
            _direct_use(run, func.cm)
        if only is not None and c != only:
            continue
        if c >= n or done[c]:
            outs.append(["skip"])
            continue
        run.cur = c
        try:
            if op[0] == "s" and case.get("in_except"):
                # the caller resumes the call while it is HANDLING an unrelated exception of its own (a retry inside an
                # `except` block): that exception is none of the context's business
                try:
                    raise LookupError("the caller's own, being handled")
                except LookupError:
                    tok = coros[c].send(None)
            elif op[0] == "s":
                tok = coros[c].send(None)
            else:
                tok = coros[c].throw(run.exc(op[2], base=True))
        except StopIteration as stop:
            v = stop.value
            if v is None:
                res = ["none"]
            elif isinstance(v, list) and v[:2] == ["v", c]:
                res = ["ret", v[2]]
            else:
                res = ["ret", "?"]
        except BaseException as exc:  # noqa: B036
            res = ["exc", run.name(exc)]
            exc.__traceback__ = None
        else:
            if isinstance(tok, list) and len(tok) == 3 and tok[1] == c:
                outs.append(["susp", tok[0]])
            else:
                outs.append(["susp", "FOREIGN", repr(tok)])
            continue
        finally:
            run.cur = None
        done[c] = True
        run.log.append([c, None, "finish", res])
        outs.append(["fin", res])
    log = [list(e) for e in run.log]
    for co in coros:
        try:
            co.close()
        except BaseException:  # noqa: B036 - cleanup of unfinished calls only
            pass
    return {"outs": outs, "log": log, "ninst": run.ninst, "done": done, "direct": getattr(run, "direct", None)}


def _proj(log, c):
    """events of call c without the generator instance"""
    return [[e[0]] + e[2:] for e in log if e[0] == c]


def observe(case):
    if case.get("kind") == "gensem":
        return _observe_gensem(case)
    out = {}
    for lib in ("impl", "std"):
        out[lib] = _execute(case, lib)
    n = len(case["calls"])
    out["solo"] = [_execute(case, "impl", only=c) for c in range(n)] if n > 1 else []
    return out


# ---------------------------------------------------------------------------------------------
# the property's own predicate on a real log


def _pairing(log, n, gb):
    """per call: enter, entered, bodyBegin, bodyEnd o, exit (exception of o), finish r — or cut short by a
    failed enter; returns (tag, detail) of the first breach, or None"""
    insts = {}
    for c in range(n):
        evs = [e for e in log if e[0] == c]
        st, body, inst = "init", None, None
        for e in evs:
            kind = e[2]
            if len(e) > 3 and e[3] == "BAD-ARGS":
                return ("recreate-args" if kind == "enter" else "call-args", e)
            if kind == "enter" and st == "init":
                st, inst = "entering", e[1]
            elif kind == "entered" and st == "entering":
                if e[1] != inst:
                    return ("shared-generator", e)
                st = "entered"
            elif kind == "bodyBegin":
                if st != "entered":
                    return ("body-without-context", e)
                st = "inBody"
            elif kind == "bodyEnd" and st == "inBody":
                st, body = "bodyDone", e[3]
            elif kind == "exit":
                if st != "bodyDone":
                    return ("exit-not-after-body", e)
                if e[1] != inst:
                    return ("shared-generator", e)
                want = body[1] if body[0] == "exc" else None
                if e[3] != want:
                    return ("exit-wrong-exception", {"event": e, "body": body})
                st = "exiting"
            elif kind == "finish":
                res = e[3]
                if st in ("init", "entering"):
                    if res[0] != "exc":
                        return ("returned-without-body", e)
                elif st == "exiting":
                    if body[0] == "ret" and res[0] != "exc" and res != body:
                        return ("wrong-result", {"event": e, "body": body})
                    if body[0] == "exc" and res[0] == "ret":
                        return ("wrong-result", {"event": e, "body": body})
                else:
                    return ("finished-without-exit", {"event": e, "state": st})
                st = "finished"
            else:
                return ("unexpected-event", {"event": e, "state": st})
        if gb and inst is not None:
            if inst in insts:
                return ("shared-generator", {"call": c, "instance": inst, "other": insts.get(inst)})
            insts[inst] = c
    return None


def _rename(log):
    """generator instances named by order of first appearance: which object it is does not matter,
    only which events share one"""
    names, out = {}, []
    for e in log:
        g = e[1]
        if g is not None:
            g = names.setdefault(g, len(names) + 1)
        out.append([e[0], g] + e[2:])
    return out


def _strip_rt(x):
    """RuntimeError kinds of the model are compared by type only"""
    if isinstance(x, list):
        if len(x) == 3 and x[0] == "lib":
            return x[:2]
        return [_strip_rt(y) for y in x]
    return x


def judge(case, obs, model):
    if case.get("kind") == "gensem":
        return _judge_gensem(case, obs, model)
    issues = []
    impl, std = obs["impl"], obs["std"]
    n = len(case["calls"])
    bad = _pairing(impl["log"], n, case["gb"])
    if bad is not None:
        issues.append(Issue("oracle", {"breach": bad[1], "log": impl["log"]}, bad[0]))
    if not all(impl["done"]):
        issues.append(Issue("oracle", {"done": impl["done"], "outs": impl["outs"]}, "call-did-not-finish"))
    if any(o[0] == "susp" and o[1] == "FOREIGN" for o in impl["outs"]):
        issues.append(Issue("oracle", {"outs": impl["outs"]}, "foreign-suspension"))
    for c, solo in enumerate(obs["solo"]):
        mine = [o for o, op in zip(impl["outs"], case["ops"]) if op[1] == c]
        if _proj(impl["log"], c) != _proj(solo["log"], c) or mine != solo["outs"]:
            issues.append(Issue("oracle", {"call": c, "interleaved": _proj(impl["log"], c),
                                           "alone": _proj(solo["log"], c)}, "interference"))
            break
    if not issues and (_rename(impl["log"]) != _rename(std["log"]) or impl["outs"] != std["outs"]):
        what = "outs" if _rename(impl["log"]) == _rename(std["log"]) else "log"
        issues.append(Issue("oracle", {"impl": impl, "std": std}, "differs-from-contextlib:" + what))
    if model is not None:
        if "error" in model:
            issues.append(Issue("A", model))
            return issues
        mi, ms = model["impl"], model["spec"]
        if case.get("direct_at") is not None and impl.get("direct") is not None:
            # the direct use itself: its own enter/exit events and result, on generator object 0 only
            real = [[e[2]] + ([e[3]] if e[2] == "exit" else []) for e in impl["direct"]["log"]]
            mdl = [[e[0]] + ([e[1]] if e[0] == "exit" else []) for e in model["direct_log"] if e[0] in ("enter", "entered", "exit")]
            fin = [e for e in model["direct_log"] if e[0] == "finish"]
            mres = None
            if fin:
                r = fin[0][1]
                mres = ["ret", None] if r[0] in ("ret", "none") else ["exc", r[1][:2] if r[1][0] == "lib" else r[1]]
            insts = {e[1] for e in impl["direct"]["log"]}
            if _strip_rt(real) != _strip_rt(mdl) or _strip_rt(impl["direct"]["res"]) != _strip_rt(mres) or (case["gb"] and insts - {0}):
                issues.append(Issue("A", {"direct-use": {"asyncstdlib": [real, impl["direct"]["res"], sorted(insts)], "model": [mdl, mres]}}))
        mlog = [_strip_rt([e[0], e[1] if e[2] in ("enter", "entered", "exit") else None] + e[2:])
                for e in mi["log"] if e[2] != "exited"]
        mouts = _strip_rt(mi["outs"])
        if _rename(mlog) != _rename(impl["log"]) or mouts != impl["outs"]:
            issues.append(Issue("A", {"impl": impl, "model": {"log": mlog, "outs": mouts, "ngens": mi["ngens"]}}))
        elif case["gb"] and (mi["ngens"] != impl["ninst"] or mlog != impl["log"]):
            issues.append(Issue("drift", {"generators-created": impl["ninst"], "model": mi["ngens"]}))
        slog = [_strip_rt(e) for e in ms["log"] if e[1] != "exited"]
        if slog != [[e[0]] + e[2:] for e in std["log"]] or _strip_rt(ms["outs"]) != std["outs"]:
            issues.append(Issue("B", {"std": std, "spec": {"log": slog, "outs": ms["outs"]}}))
        if ([[e[0]] + e[2:] for e in mi["log"]] != ms["log"] or mi["outs"] != ms["outs"] or mi["pcs"] != ms["pcs"]
                or not mi["accepted"]):
            issues.append(Issue("MS", model))
    return issues


def model_request(case):
    if case.get("kind") == "gensem":
        return {"m": "decorator", "mode": "gensem", "prog": case["prog"], "ops": case["ops"]}
    if case.get("direct_at") is not None:
        # Machines/DecoratorDirect.lean: the same run with the manager object itself entered directly before op `direct_at`
        return {"m": "decoratordirect", "gb": case["gb"], "calls": case["calls"], "ops": case["ops"], "direct_at": case["direct_at"]}
    return {"m": "decorator", "mode": "run", "gb": case["gb"], "calls": case["calls"], "ops": case["ops"]}


def features(case, obs):
    if case.get("kind") == "gensem":
        return ["kind=gensem"] + ["gensem:" + o[0] for o in obs["outs"]]
    f = ["kind=" + case.get("kind", "?"), "gb=%s" % case["gb"], "calls=%d" % len(case["calls"])]
    if any(op[0] == "x" for op in case["ops"]):
        f.append("with-cancel")
    order = [e[0] for e in obs["impl"]["log"]]
    switches = sum(1 for a, b in zip(order, order[1:]) if a != b)
    f.append("interleaved" if switches > len(case["calls"]) - 1 else "sequential")
    for e in obs["impl"]["log"]:
        if e[2] == "finish":
            r = e[3]
            f.append("result=" + (r[0] if r[0] != "exc" else "exc-" + r[1][0]))
        if e[2] == "exit":
            f.append("exit-with-exc" if e[3] is not None else "exit-clean")
    susp = {o[1] for o in obs["impl"]["outs"] if o[0] == "susp"}
    f.extend("susp-in-" + s for s in sorted(susp))
    return f


def nontrivial(case, obs):
    if case.get("kind") == "gensem":
        return len(obs["outs"]) > 1
    return any(e[2] == "entered" for e in obs["impl"]["log"])


# ---------------------------------------------------------------------------------------------
# kind=gensem: the Python-runtime part of the model (genAdvance) against a real async generator,
# including the states no correct decorator ever reaches (two callers on one generator)


def _observe_gensem(case):
    run = _Run({"calls": [{"gen": case["prog"]}], "gb": True})
    run.cur = 0
    # the scripted generator exactly as _build_gen makes it; contextlib only hands us the raw generator object
    gen = _build_gen(run, "std").gen
    aws = {}          # caller id -> awaitable in progress
    outs = []
    for op in case["ops"]:
        tag, who = op[0], op[1]
        mark = len(run.log)
        try:
            if tag == "next":
                aws[who] = gen.__anext__()
                tok = aws[who].send(None)
            elif tag == "throw":
                aws[who] = gen.athrow(run.exc(op[2]))
                tok = aws[who].send(None)
            elif tag == "cont":
                if who not in aws:
                    outs.append(["skip"])
                    continue
                tok = aws[who].send(None)
            else:
                if who not in aws:
                    outs.append(["skip"])
                    continue
                tok = aws[who].throw(run.exc(op[2], base=True))
        except StopIteration as stop:
            aws.pop(who, None)
            outs.append(["yielded", [e[2:] for e in run.log[mark:]]])
            del stop
        except StopAsyncIteration:
            aws.pop(who, None)
            outs.append(["stopped", [e[2:] for e in run.log[mark:]]])
        except BaseException as exc:  # noqa: B036
            aws.pop(who, None)
            exc.__traceback__ = None
            outs.append(["raised", run.name(exc), [e[2:] for e in run.log[mark:]]])
        else:
            del tok
            outs.append(["suspended", [e[2:] for e in run.log[mark:]]])
    return {"outs": outs}


def _judge_gensem(case, obs, model):
    if model is None:
        return []
    if "error" in model:
        return [Issue("B", model)]
    if _strip_rt(model["outs"]) != obs["outs"]:
        return [Issue("B", {"python": obs["outs"], "model": model["outs"]})]
    return []


# ---------------------------------------------------------------------------------------------
# case generation

GEN_DEFAULT = {"preSusp": 0, "pre": "Y", "postSusp": 0, "post": "S", "thrSusp": 0, "thr": "P"}
PLAIN_DEFAULT = {"enterSusp": 0, "enter": "K", "exitSusp": 0, "exitNone": "F", "exitSome": "F"}


def _ids(c):
    return {"body": 10 + c, "pre": 20 + c, "post": 30 + c, "thr": 40 + c, "enter": 50 + c, "exit": 60 + c}


def gen_profiles(c, susp=(0, 1)):
    """every generator-based behaviour of call c (suspension counts from `susp`)"""
    i = _ids(c)
    for ps, pre in itertools.product(susp, ("Y", "R%d" % i["pre"], "S")):
        for bs, body in itertools.product(susp, ("V%d" % (7 + c), "R%d" % i["body"])):
            if pre != "Y":
                # nothing after a failed enter matters: one representative
                yield {"gen": dict(GEN_DEFAULT, preSusp=ps, pre=pre), "plain": PLAIN_DEFAULT, "bodySusp": bs, "body": body}
                continue
            for qs, post in itertools.product(susp, ("S", "Y", "R%d" % i["post"])):
                for ts, thr in itertools.product(susp, ("P", "W", "R%d" % i["thr"], "R%d" % i["body"], "Y")):
                    yield {"gen": {"preSusp": ps, "pre": pre, "postSusp": qs, "post": post, "thrSusp": ts, "thr": thr},
                           "plain": PLAIN_DEFAULT, "bodySusp": bs, "body": body}


def plain_profiles(c, susp=(0, 1)):
    i = _ids(c)
    acts = ("F", "T", "R%d" % i["exit"], "S")
    for es, enter in itertools.product(susp, ("K", "R%d" % i["enter"])):
        for bs, body in itertools.product(susp, ("V%d" % (7 + c), "R%d" % i["body"])):
            if enter != "K":
                yield {"gen": GEN_DEFAULT, "plain": dict(PLAIN_DEFAULT, enterSusp=es, enter=enter), "bodySusp": bs, "body": body}
                continue
            for xs, xn, xe in itertools.product(susp, acts, acts + ("R%d" % i["body"],)):
                yield {"gen": GEN_DEFAULT, "plain": {"enterSusp": es, "enter": enter, "exitSusp": xs, "exitNone": xn,
                                                      "exitSome": xe}, "bodySusp": bs, "body": body}


def sends_needed(cfg, gb):
    """upper bound on the sends one call needs to finish"""
    if gb:
        g = cfg["gen"]
        return 1 + g["preSusp"] + cfg["bodySusp"] + max(g["postSusp"], g["thrSusp"])
    p = cfg["plain"]
    return 1 + p["enterSusp"] + cfg["bodySusp"] + p["exitSusp"]


def drain(calls, gb):
    ops = []
    for c, cfg in enumerate(calls):
        ops.extend([["s", c]] * (sends_needed(cfg, gb) + 1))
    return ops


def interleavings(counts):
    """all orders of `counts[c]` operations of each call c"""
    total = sum(counts)
    if total == 0:
        yield []
        return
    for c, k in enumerate(counts):
        if k:
            rest = list(counts)
            rest[c] -= 1
            for tail in interleavings(rest):
                yield [c] + tail


def _case(kind, gb, calls, ops):
    return {"kind": kind, "gb": gb, "calls": calls, "ops": ops + drain(calls, gb)}


def covering(gb, c, size):
    """behaviours with a suspension in every stage, one per outcome class"""
    i = _ids(c)
    v, r = "V%d" % (7 + c), "R%d" % i["body"]
    if gb:
        rows = [
            ("Y", v, "S", "P"), ("Y", r, "S", "P"), ("Y", r, "S", "W"), ("Y", r, "S", "R%d" % i["thr"]),
            ("R%d" % i["pre"], v, "S", "P"), ("Y", v, "R%d" % i["post"], "P"), ("Y", v, "Y", "P"), ("Y", r, "S", "Y"),
            ("S", v, "S", "P"), ("Y", r, "S", "R%d" % i["body"]),
            ("Y", v, "S", "W"), ("Y", r, "R%d" % i["post"], "P"), ("Y", r, "Y", "W"), ("Y", v, "S", "Y"),
            ("Y", r, "Y", "Y"), ("Y", v, "R%d" % i["post"], "W"),
        ][:size]
        return [{"gen": {"preSusp": 1, "pre": pre, "postSusp": 1, "post": post, "thrSusp": 1, "thr": thr},
                 "plain": PLAIN_DEFAULT, "bodySusp": 1, "body": body} for pre, body, post, thr in rows]
    rows = [
        ("K", v, "F", "F"), ("K", r, "F", "F"), ("K", r, "F", "T"), ("K", r, "F", "R%d" % i["exit"]),
        ("R%d" % i["enter"], v, "F", "F"), ("K", v, "R%d" % i["exit"], "F"),
        ("K", v, "T", "F"), ("K", r, "F", "S"), ("K", r, "T", "R%d" % i["body"]), ("K", v, "S", "T"),
    ][:size]
    return [{"gen": GEN_DEFAULT, "plain": {"enterSusp": 1, "enter": enter, "exitSusp": 1, "exitNone": xn, "exitSome": xe},
             "bodySusp": 1, "body": body} for enter, body, xn, xe in rows]


def random_profile(rng, gb, c):
    i = _ids(c)
    body = rng.choice(["V%d" % (7 + c), "R%d" % i["body"]])
    bs = rng.randint(0, 2)
    if gb:
        gen = {"preSusp": rng.randint(0, 2), "pre": rng.choice(["Y"] * 6 + ["S", "R%d" % i["pre"]]),
               "postSusp": rng.randint(0, 2), "post": rng.choice(["S"] * 4 + ["Y", "R%d" % i["post"]]),
               "thrSusp": rng.randint(0, 2),
               "thr": rng.choice(["P", "P", "W", "W", "Y", "R%d" % i["thr"], "R%d" % i["body"]])}
        return {"gen": gen, "plain": PLAIN_DEFAULT, "bodySusp": bs, "body": body}
    acts = ["F", "F", "T", "S", "R%d" % i["exit"]]
    plain = {"enterSusp": rng.randint(0, 2), "enter": rng.choice(["K"] * 6 + ["R%d" % i["enter"]]),
             "exitSusp": rng.randint(0, 2), "exitNone": rng.choice(acts), "exitSome": rng.choice(acts)}
    return {"gen": GEN_DEFAULT, "plain": plain, "bodySusp": bs, "body": body}


def random_case(rng, ncalls=None, cancel_p=0.12, kind="random"):
    gb = rng.random() < 0.7
    n = ncalls or rng.randint(2, 4)
    calls = [random_profile(rng, gb, c) for c in range(n)]
    pool = []
    for c, cfg in enumerate(calls):
        pool.extend([c] * rng.randint(0, sends_needed(cfg, gb) + 1))
    rng.shuffle(pool)
    ops = []
    for k, c in enumerate(pool):
        if rng.random() < cancel_p:
            ops.append(["x", c, 100 + k])
        else:
            ops.append(["s", c])
    return _case(kind, gb, calls, ops)


def sequential_case(rng):
    gb = rng.random() < 0.7
    n = rng.randint(1, 5)
    calls = [random_profile(rng, gb, c) for c in range(n)]
    ops = []
    for c, cfg in enumerate(calls):
        k = sends_needed(cfg, gb)
        seq = [["s", c]] * k
        if rng.random() < 0.25:
            pos = rng.randrange(k)
            seq = seq[:pos] + [["x", c, 100 + c]] + seq[pos + 1:]
        ops.extend(seq)
    return _case("sequential", gb, calls, ops)


def gensem_cases(rng, count):
    """op sequences on ONE generator used by two callers (0 and 1)"""
    i = _ids(0)
    progs = []
    for pre, post, thr in itertools.product(("Y", "R%d" % i["pre"], "S"), ("S", "Y", "R%d" % i["post"]),
                                            ("P", "W", "Y", "R%d" % i["thr"])):
        for s in (0, 1):
            progs.append({"preSusp": s, "pre": pre, "postSusp": s, "post": post, "thrSusp": s, "thr": thr})
    for _ in range(count):
        prog = rng.choice(progs)
        ops = []
        for k in range(rng.randint(1, 7)):
            tag = rng.choice(["next", "next", "throw", "cont", "cont", "cancel"])
            who = rng.randrange(2)
            ops.append([tag, who] + ([200 + k] if tag in ("throw", "cancel") else []))
        yield {"kind": "gensem", "prog": prog, "ops": ops}


def cases(tier, rng):
    thorough = tier == "thorough"
    # 1. a single call: every behaviour, run through; every cancellation point
    for gb, profiles in ((True, gen_profiles), (False, plain_profiles)):
        for cfg in profiles(0):
            k = sends_needed(cfg, gb)
            yield _case("single", gb, [cfg], [["s", 0]] * k)
            for pos in range(k):
                yield _case("single-cancel", gb, [cfg], [["s", 0]] * pos + [["x", 0, 100 + pos]])
    # 1b. the manager object is also entered directly once, somewhere between the operations of the decorated calls
    for _ in range(600 if thorough else 300):
        case = sequential_case(rng) if rng.random() < 0.5 else random_case(rng)
        if case["ops"]:
            yield dict(case, kind=case["kind"] + "+direct", direct_at=rng.randrange(max(1, len(case["ops"]) // 2)))
    for _ in range(300 if thorough else 150):
        case = sequential_case(rng) if rng.random() < 0.5 else random_case(rng, cancel_p=0.0)
        yield dict(case, kind=case["kind"] + "+in-except", in_except=True)
    # 2. two concurrent calls: every interleaving over a covering set of behaviours
    for gb, size in ((True, 16 if thorough else 8), (False, 10 if thorough else 6)):
        for a in covering(gb, 0, size):
            for b in covering(gb, 1, size):
                counts = [sends_needed(a, gb), sends_needed(b, gb)]
                for order in interleavings(counts):
                    yield _case("pair", gb, [a, b], [["s", c] for c in order])
    # 3. one cancellation at every position of every interleaving (subset of behaviours)
    for gb in (True, False):
        cov = covering(gb, 0, 4 if thorough else 3)
        cov1 = covering(gb, 1, 4 if thorough else 3)
        for a in cov:
            for b in cov1:
                counts = [sends_needed(a, gb), sends_needed(b, gb)]
                for n_order, order in enumerate(interleavings(counts)):
                    if not thorough and n_order % 5:
                        continue
                    for pos in range(len(order)):
                        ops = [["s", c] for c in order]
                        ops[pos] = ["x", order[pos], 100 + pos]
                        yield _case("pair-cancel", gb, [a, b], ops)
    # 4. three concurrent calls
    if thorough:
        for gb in (True, False):
            cov = [covering(gb, c, 3) for c in range(3)]
            for a, b, d in itertools.product(*cov):
                counts = [sends_needed(x, gb) for x in (a, b, d)]
                for n_order, order in enumerate(interleavings(counts)):
                    if n_order % 7:
                        continue
                    yield _case("triple", gb, [a, b, d], [["s", c] for c in order])
    for _ in range(400 if not thorough else 8000):
        yield random_case(rng, ncalls=3, kind="triple-random")
    # 5. seeded random: 2..4 calls with cancellations; sequential repetition of 1..5 calls
    for _ in range(60000 if thorough else 2500):
        yield random_case(rng)
    for _ in range(3000 if thorough else 300):
        yield sequential_case(rng)
    # 6. the runtime semantics of generator objects used by two callers
    for c in gensem_cases(rng, 4000 if thorough else 600):
        yield c


def search_cases(broken_cases, rng):
    """neighbours of disagreeing cases (every prefix of the schedule, every single call alone) + random sweep"""
    for case in broken_cases:
        if case.get("kind") == "gensem":
            continue
        body = [op for op in case["ops"]]
        for cut in range(1, min(len(body), 12)):
            yield dict(case, kind="search", ops=body[:cut] + drain(case["calls"], case["gb"]))
    for _ in range(3000):
        yield random_case(rng, kind="search")
    for _ in range(500):
        yield sequential_case(rng)
