"""C07 — a borrowed iterator can never close its underlying iterator.

Also holds the machinery shared with C08 (scoped_iter): the instrumented underlying iterators, the
interpreter that performs a case's operations on the REAL asyncstdlib objects (hand-driven, no event
loop), the translation of what happened into operations of the Lean machine `Machines/Borrow.lean`,
and the direct oracle of both properties.
"""
import builtins
import functools
import gc
import heapq
import itertools

from framework import Issue
import fam_borrow_send
from world import Item, Susp, UserBaseExc, UserExc, asyncstdlib, canon, drive, exc_name, user_exc

A = asyncstdlib
CANCEL = 4242

RULE = (
    "operation sequences over {next U, next h, next h cancelled at the suspension inside U, h.asend, close h, "
    "close via iter(h), borrow U / re-borrow h, hand h to a library tool (every iterator tool and aggregation "
    "of asyncstdlib: take j, then close / exhaust / abandon+GC / cancel)} on up to 3 handles; exhaustive for short "
    "sequences, then seeded random; underlying iterator = async generator or class-based iterator with every "
    "combination of aclose/asend/athrow, with and without suspensions and faults in its script; after the "
    "sequence abandoned tools are garbage-collected and the owner drains the underlying iterator. "
    "non-trivial = some item was delivered through a handle and some handle was closed; distinct by case content"
)
EXHAUSTIVE = {"quick": True, "thorough": True}
SCOPE = {"quick": "all valid op sequences of length <=5 over the 11-symbol alphabet (2 handles) on a 3-item script; "
                  "every tool x {close, exhaust, abandon, cancel} x take 0..2 once; 2500 random sequences up to length 10",
         "thorough": "all valid op sequences of length <=6 over the 11-symbol alphabet; every tool x fin x take 0..3 on "
                     "every kind of underlying iterator; 150000 random sequences up to length 14"}
ASSUMPTIONS = [
    "operations are sequential: no second task is suspended inside a handle while another operation runs — except in the "
    "oracle-only `conc` family (a close of the handle, or of a handle it was borrowed from, arriving while an anext is "
    "suspended inside the underlying iterator): there an ACCEPTED close must leave the handle dead, a refused one "
    "(RuntimeError, as CPython refuses to close a running generator) is not judged",
    "athrow forwarding to the underlying iterator is not among the operations (documented pass-through)",
    "a library tool handed a handle is observed only through what reaches the underlying iterator: the number of "
    "pulls it made is read off the underlying iterator's log and replayed on the machine as `next h`^k (; cancelled "
    "pull) ; close h  -- the harness closes the handle itself after the tool is done, whether or not the tool did; "
    "for a tool abandoned while suspended, whether it already closed this input (chain moving on to its next "
    "iterable) is read off the handle's public asend attribute",
    "the underlying iterator's aclose() does not raise",
]
TRUSTED = [
    "the tool abstraction: a library tool handed a handle is some sequence of `next h` followed by `close h` "
    "(validated on every real tool by the correspondence, not proved)",
]

# ---------------------------------------------------------------------------------------------
# instrumented underlying iterators (twin of pullU / cancelU / closeU in Machines/Borrow.lean)


class _ObjBase:
    """class-based async iterator; capabilities are added by the mixins below"""

    def __init__(self, script, log, susp, close_susp):
        self.script, self.log, self.susp, self.close_susp = script, log, susp, close_susp
        self.idx = 0
        self.dead = False

    def __aiter__(self):
        return self

    async def _advance(self, ev):
        for j in range(self.susp):
            await Susp(["src", j])
        self.log.append(ev)
        if self.dead or self.idx >= len(self.script):
            self.dead = True
            self.log.append("end")
            raise StopAsyncIteration
        entry = self.script[self.idx]
        self.idx += 1
        if entry[0] == "i":
            self.log.append(["item", entry[1]])
            return Item(entry[1], entry[2])
        self.log.append(["err", entry[1]])
        raise UserExc(entry[1])

    def __anext__(self):
        return self._advance("pull")


class _CloseMixin:
    async def aclose(self):
        for j in range(self.close_susp):
            await Susp(["close", j])
        self.log.append("close")
        self.dead = True


class _SendMixin:
    def asend(self, value):
        return self._advance("send")


class _ThrowMixin:
    async def athrow(self, *args):
        self.log.append("throw")
        raise args[0] if not isinstance(args[0], type) else args[0]()


async def _agen_u(script, log, susp):
    try:
        for entry in script:
            for j in range(susp):
                await Susp(["src", j])
            log.append("pull")
            if entry[0] == "i":
                log.append(["item", entry[1]])
                yield Item(entry[1], entry[2])
            else:
                log.append(["err", entry[1]])
                raise UserExc(entry[1])
        for j in range(susp):
            await Susp(["src", j])
        log.append("pull")
        log.append("end")
    except GeneratorExit:
        log.append("close")
        raise
    except UserBaseExc:
        log.append("killed")
        raise


def make_u(spec, log):
    if spec["kind"] == "agen":
        return _agen_u(spec["script"], log, spec.get("susp", 0))
    bases = [_ObjBase]
    if spec.get("close"):
        bases.insert(0, _CloseMixin)
    if spec.get("send"):
        bases.insert(0, _SendMixin)
    if spec.get("throw"):
        bases.insert(0, _ThrowMixin)
    cls = type("ObjU", tuple(bases), {})
    obj = cls(spec["script"], log, spec.get("susp", 0), spec.get("close_susp", 0))
    if len(spec["script"]) % 2 == 1:
        from world import AObjProxy
        obj = AObjProxy(obj)     # aclose / asend / athrow are offered only dynamically (transparent proxy)
    return obj


def u_dead(spec, u):
    if spec["kind"] == "agen":
        return u.ag_frame is None
    return u.dead


def u_caps(spec):
    """(gen, hasClose, hasSend) as the machine sees them"""
    if spec["kind"] == "agen":
        return True, True, True
    return False, bool(spec.get("close")), bool(spec.get("send"))


# ---------------------------------------------------------------------------------------------
# library tools: how a handle is handed to each, and the synchronous stdlib counterpart on a shared
# synchronous iterator (used by C08's shared-iterator oracle)


def _pred(v):
    return v.key % 2 == 1


async def _apred(v):
    return v.key % 2 == 1


def _key(v):
    return v.key


async def _akey(v):
    return v.key


def _pair(*a):
    return tuple(a)


def _ident(v):
    return v


_EXTRA = [Item(900, 1), Item(901, 0)]


def _merge_key_sorted(x):
    return x


# name -> (async constructor (x, p), sync constructor (it, p), kind)
#   kind: "iter" async iterator, "agg" coroutine returning a value, "tee", "groupby"
TOOLS = {
    "islice": (lambda x, p: A.islice(x, p.get("n", 2)), lambda it, p: itertools.islice(it, p.get("n", 2)), "iter"),
    "islice3": (lambda x, p: A.islice(x, 1, None, 2), lambda it, p: itertools.islice(it, 1, None, 2), "iter"),
    # a stride whose stop is not aligned with it: the slice still consumes up to `stop`, as a shared iterator shows
    "islice4": (lambda x, p: A.islice(x, 0, 4, 2), lambda it, p: itertools.islice(it, 0, 4, 2), "iter"),
    "islice5": (lambda x, p: A.islice(x, 1, 6, 3), lambda it, p: itertools.islice(it, 1, 6, 3), "iter"),
    "filter": (lambda x, p: A.filter(_pred, x), lambda it, p: builtins.filter(_pred, it), "iter"),
    "filter_async": (lambda x, p: A.filter(_apred, x), lambda it, p: builtins.filter(_pred, it), "iter"),
    "filterfalse": (lambda x, p: A.filterfalse(_pred, x), lambda it, p: itertools.filterfalse(_pred, it), "iter"),
    "takewhile": (lambda x, p: A.takewhile(_pred, x), lambda it, p: itertools.takewhile(_pred, it), "iter"),
    "dropwhile": (lambda x, p: A.dropwhile(_apred, x), lambda it, p: itertools.dropwhile(_pred, it), "iter"),
    "enumerate": (lambda x, p: A.enumerate(x, 3), lambda it, p: builtins.enumerate(it, 3), "iter"),
    "map": (lambda x, p: A.map(_ident, x), lambda it, p: builtins.map(_ident, it), "iter"),
    "map2": (lambda x, p: A.map(_pair, x, x), lambda it, p: builtins.map(_pair, it, it), "iter"),
    "zip1": (lambda x, p: A.zip(x), lambda it, p: builtins.zip(it), "iter"),
    "zip2": (lambda x, p: A.zip(x, x), lambda it, p: builtins.zip(it, it), "iter"),
    "zip_list": (lambda x, p: A.zip(list(_EXTRA), x), lambda it, p: builtins.zip(list(_EXTRA), it), "iter"),
    "zip_strict": (lambda x, p: A.zip(x, list(_EXTRA), strict=True),
                   lambda it, p: builtins.zip(it, list(_EXTRA), strict=True), "iter"),
    "zip_longest": (lambda x, p: A.zip_longest(x, x, list(_EXTRA)),
                    lambda it, p: itertools.zip_longest(it, it, list(_EXTRA)), "iter"),
    "chain": (lambda x, p: A.chain(list(_EXTRA), x), lambda it, p: itertools.chain(list(_EXTRA), it), "iter"),
    "chain2": (lambda x, p: A.chain(x, x), lambda it, p: itertools.chain(it, it), "iter"),
    "chain_from": (lambda x, p: A.chain.from_iterable([x, list(_EXTRA)]),
                   lambda it, p: itertools.chain.from_iterable([it, list(_EXTRA)]), "iter"),
    "compress": (lambda x, p: A.compress(x, [1, 0, 1, 1]), lambda it, p: itertools.compress(it, [1, 0, 1, 1]), "iter"),
    "compress_sel": (lambda x, p: A.compress(list(_EXTRA) * 2, x),
                     lambda it, p: itertools.compress(list(_EXTRA) * 2, it), "iter"),
    "cycle": (lambda x, p: A.cycle(x), lambda it, p: itertools.cycle(it), "iter"),
    "accumulate": (lambda x, p: A.accumulate(x, _pair), lambda it, p: _accumulate(it), "iter"),
    "batched": (lambda x, p: A.batched(x, p.get("n", 2)), lambda it, p: _batched(it, p.get("n", 2)), "iter"),
    "pairwise": (lambda x, p: A.pairwise(x), lambda it, p: itertools.pairwise(it), "iter"),
    "starmap": (lambda x, p: A.starmap(_pair, A.zip(x, x)), lambda it, p: itertools.starmap(_pair, builtins.zip(it, it)), "iter"),
    "iter": (lambda x, p: A.iter(x), lambda it, p: builtins.iter(it), "iter"),
    "any_iter": (lambda x, p: A.any_iter(x), lambda it, p: builtins.iter(it), "iter"),
    "merge": (lambda x, p: A.merge(x, list(_EXTRA), key=_key), lambda it, p: heapq.merge(it, list(_EXTRA), key=_key), "iter"),
    "tee": (lambda x, p: A.tee(x, n=2), lambda it, p: itertools.tee(it, 2), "tee"),
    "groupby": (lambda x, p: A.groupby(x, _akey), lambda it, p: itertools.groupby(it, _key), "groupby"),
    "anext": (lambda x, p: A.anext(x, None), lambda it, p: builtins.next(it, None), "agg"),
    "list": (lambda x, p: A.list(x), lambda it, p: builtins.list(it), "agg"),
    "tuple": (lambda x, p: A.tuple(x), lambda it, p: builtins.tuple(it), "agg"),
    "set": (lambda x, p: A.set(x), lambda it, p: builtins.set(it), "agg"),
    "dict": (lambda x, p: A.dict(A.zip(x, x)), lambda it, p: builtins.dict(builtins.zip(it, it)), "agg"),
    "sorted": (lambda x, p: A.sorted(x, key=_akey), lambda it, p: builtins.sorted(it, key=_key), "agg"),
    "min": (lambda x, p: A.min(x, key=_key, default=None), lambda it, p: builtins.min(it, key=_key, default=None), "agg"),
    "max": (lambda x, p: A.max(x, key=_akey, default=None), lambda it, p: builtins.max(it, key=_key, default=None), "agg"),
    "sum": (lambda x, p: A.sum(A.map(_key, x), 5), lambda it, p: builtins.sum(builtins.map(_key, it), 5), "agg"),
    "reduce": (lambda x, p: A.reduce(_pair, x, None), lambda it, p: functools.reduce(_pair, it, None), "agg"),
    "all": (lambda x, p: A.all(x), lambda it, p: builtins.all(it), "agg"),
    "any": (lambda x, p: A.any(x), lambda it, p: builtins.any(it), "agg"),
    "nlargest": (lambda x, p: A.nlargest(x, 2, key=_key), lambda it, p: heapq.nlargest(2, it, key=_key), "agg"),
    "nsmallest": (lambda x, p: A.nsmallest(x, 2, key=_akey), lambda it, p: heapq.nsmallest(2, it, key=_key), "agg"),
}
TOOL_NAMES = sorted(TOOLS)
INFINITE = {"cycle"}
# order among equal keys is C02's subject (D2), set order is unspecified: compare these as multisets
UNORDERED = {"set", "nlargest", "nsmallest", "sorted", "min", "max", "merge"}


def _accumulate(it):
    """itertools.accumulate + asyncstdlib's documented deviation: TypeError on an empty iterable"""
    n = 0
    for v in itertools.accumulate(it, _pair):
        n += 1
        yield v
    if n == 0:
        raise TypeError("accumulate() of empty sequence with no initial value")


def _batched(it, n):
    while True:
        batch = tuple(itertools.islice(it, n))
        if not batch:
            return
        yield batch


def _canon_out(v):
    if isinstance(v, (set, frozenset)):
        return ["set"] + sorted(canon(x) for x in v)
    if isinstance(v, dict):
        return ["dict"] + [[canon(k), canon(x)] for k, x in v.items()]
    return canon(v)


# ---------------------------------------------------------------------------------------------
# the interpreter: a case's operations on the real objects


class _Cancel:
    """reply function throwing the cancellation at the first suspension (after `skip` of them)"""

    def __init__(self, skip=0):
        self.skip, self.thrown = skip, False

    def __call__(self, i, tok):
        if not self.thrown and i >= self.skip:
            self.thrown = True
            return ("throw", UserBaseExc(CANCEL))
        return ("send", ("r", tok))


def _res(res):
    """canonical outcome of a driven pull"""
    if res.exc is None:
        v = res.value
        return ["item", v.id] if isinstance(v, Item) else ["value", canon(v)]
    if isinstance(res.exc, StopAsyncIteration):
        return "stop"
    if isinstance(res.exc, UserBaseExc) and res.exc.eid == CANCEL:
        return "cancelled"
    if isinstance(res.exc, UserExc):
        return ["raised", res.exc.eid]
    return ["lib", type(res.exc).__name__, str(res.exc)[:80]]


class Run:
    def __init__(self, case):
        self.case = case
        self.spec = case["u"]
        self.log = []
        self.u = make_u(self.spec, self.log)
        self.H = []            # handles, index = machine id
        self.C = []            # (context manager, target, own handle index or None)
        self.keep = []         # abandoned tools, kept alive until the GC phase
        self.recs = []         # per op: {"out", "seg", "dead", "tool_out"?}
        self.mops = []         # the same operations as machine operations
        self.closed = set()    # handles the property says are closed (oracle bookkeeping)

    def obj(self, t):
        return self.u if t is None else self.H[t]

    def valid(self, t):
        return t is None or (isinstance(t, int) and 0 <= t < len(self.H))

    # -- single operations -----------------------------------------------------------------
    def op_next(self, t, cancel):
        reply = _Cancel() if cancel else None
        res = drive(builtins.anext(self.obj(t)), reply)
        return _res(res)

    def op_send(self, h):
        meth = getattr(self.H[h], "asend", None)
        if meth is None:
            return "noattr"
        return _res(drive(meth(None)))

    def op_close(self, t, via_iter=False):
        obj = self.obj(t)
        if via_iter:
            obj = A.iter(obj)
        meth = getattr(obj, "aclose", None)
        if meth is None:
            return "noattr"
        res = drive(meth())
        return "ok" if res.exc is None else ["lib", type(res.exc).__name__, str(res.exc)[:80]]

    def op_borrow(self, t):
        try:
            self.H.append(A.borrow(self.obj(t)))
        except Exception as exc:
            self.H.append(None)
            return ["lib", type(exc).__name__, str(exc)[:80]]
        return ["handle", len(self.H) - 1]

    def op_enter(self, t):
        obj = self.obj(t)
        try:
            cm = A.scoped_iter(obj)
        except Exception as exc:
            return ["lib", type(exc).__name__, str(exc)[:80]]
        res = drive(cm.__aenter__())
        if res.exc is not None:
            return ["lib", type(res.exc).__name__, str(res.exc)[:80]]
        if res.value is obj:          # nullcontext: the iterator itself, nothing to scope
            self.C.append((cm, t, None))
            return ["entered", len(self.C) - 1, None]
        self.H.append(res.value)
        self.C.append((cm, t, len(self.H) - 1))
        return ["entered", len(self.C) - 1, len(self.H) - 1]

    def op_exit(self, c, mode):
        cm = self.C[c][0]
        if mode == "normal":
            args = (None, None, None)
        elif mode == "cancel":
            # what "the block is left by cancellation / tear-down" looks like to __aexit__: a BaseException that is
            # not an Exception.  Rotate deterministically through the ones a scope really meets: an injected one,
            # GeneratorExit (the block sits in an async generator that is being closed), asyncio's CancelledError,
            # KeyboardInterrupt.  The scope must close the underlying iterator for every one of them.
            import asyncio
            k = (len(self.case["ops"]) + c) % 4
            exc = [UserBaseExc(CANCEL), GeneratorExit(), asyncio.CancelledError(), KeyboardInterrupt()][k]
            args = (type(exc), exc, None)
        else:
            exc = user_exc(mode[1])
            args = (type(exc), exc, None)
        res = drive(cm.__aexit__(*args))
        if res.exc is not None:
            return ["lib", type(res.exc).__name__, str(res.exc)[:80]]
        if res.value and mode != "normal":
            return "suppressed"
        return "ok"

    def op_tool(self, t, tool):
        """hand `t` to a real library tool; returns (tool outputs, cancelled?)"""
        mk, _, kind = TOOLS[tool["name"]]
        p = tool.get("p", {})
        take, fin = tool.get("take", 0), tool["fin"]
        obj = self.obj(t)
        outs, cancelled = [], False
        direct_before = self._asend_direct(obj)
        if kind == "agg" and fin == "abandon":
            fin = "exhaust"          # a coroutine that is awaited always runs to its end
        try:
            thing = mk(obj, p)
        except BaseException as exc:  # noqa: B036
            return [["ctor-raised", exc_name(exc)]], False, False
        if kind == "agg":
            reply = _Cancel(skip=take) if fin == "cancel" else None
            res = drive(thing, reply)
            cancelled = bool(reply and reply.thrown)
            outs.append(["returned", _canon_out(res.value)] if res.exc is None else _res(res))
        else:
            closer = thing
            if kind == "tee":
                it = thing[0]
            else:
                it = thing
            done = False
            n = 0
            while fin == "exhaust" or n < take:
                res = drive(builtins.anext(it))
                if res.exc is not None:
                    outs.append(_res(res))
                    done = True
                    break
                outs.append(["y", self._tool_item(kind, res.value)])
                n += 1
                if n > 50:
                    raise RuntimeError("tool does not end")
            if fin == "cancel" and not done:
                reply = _Cancel()
                res = drive(builtins.anext(it), reply)
                cancelled = reply.thrown
                outs.append(["y", self._tool_item(kind, res.value)] if res.exc is None else _res(res))
            if fin == "abandon" and done:
                fin = "exhaust"      # the tool ended by itself before it could be abandoned
            if fin == "abandon":
                self.keep.append(thing)
            elif hasattr(closer, "aclose"):
                res = drive(closer.aclose())
                if res.exc is not None:
                    outs.append(["close-raised", exc_name(res.exc)])
        if fin != "abandon":
            # the tool is done with the handle: the handle is closed now, whether or not the tool did it
            res = drive(obj.aclose())
            if res.exc is not None:
                outs.append(["handle-close-raised", exc_name(res.exc)])
            return outs, cancelled, True
        # abandoned while still suspended.  A tool with several inputs may already be done with this one and
        # have closed it (chain moves on to its next iterable): whether it did is the tool's business, read it
        # off the handle's public `asend` attribute (re-pointed away from the underlying iterator by aclose()).
        return outs, cancelled, direct_before and not self._asend_direct(obj)

    def _asend_direct(self, handle):
        meth = getattr(handle, "asend", None)
        owner = getattr(meth, "__self__", None)
        # (the underlying iterator may be a transparent proxy: its bound methods belong to the object behind it)
        return meth is not None and (owner is self.u or owner is getattr(self.u, "_inner", self.u))

    def _tool_item(self, kind, v):
        if kind == "groupby":
            k, g = v
            members = []
            while True:
                res = drive(builtins.anext(g))
                if res.exc is not None:
                    break
                members.append(canon(res.value))
            return [canon(k), members]
        return _canon_out(v)

    # -- the whole case ----------------------------------------------------------------------
    def perform(self, op):
        tag = op[0]
        n0 = len(self.log)
        rec = {}
        mop = op
        try:
            if tag in ("next", "ncancel"):
                rec["out"] = self.op_next(op[1], tag == "ncancel") if self.valid(op[1]) else "invalid"
            elif tag == "send":
                rec["out"] = self.op_send(op[1]) if self.valid(op[1]) and op[1] is not None else "invalid"
            elif tag == "close":
                rec["out"] = self.op_close(op[1]) if self.valid(op[1]) else "invalid"
            elif tag == "citer":
                rec["out"] = self.op_close(op[1], via_iter=True) if self.valid(op[1]) and op[1] is not None else "invalid"
            elif tag == "borrow":
                rec["out"] = self.op_borrow(op[1]) if self.valid(op[1]) else "invalid"
            elif tag == "enter":
                rec["out"] = self.op_enter(op[1]) if self.valid(op[1]) else "invalid"
            elif tag == "exit":
                rec["out"] = self.op_exit(op[1], op[2]) if 0 <= op[1] < len(self.C) else "invalid"
            elif tag == "tool":
                if not self.valid(op[1]) or op[1] is None:
                    rec["out"] = "invalid"
                    mop = ["next", op[1]]      # the machine answers `invalid` as well
                else:
                    mop = None
                    outs, cancelled, closes = self.op_tool(op[1], op[2])
                    rec["out"] = "tool"
                    rec["tool_out"] = outs
                    rec["closes"] = closes
                    k = sum(1 for ev in self.log[n0:] if ev in ("pull", "send"))
                    mop = ["tool", op[1], k, bool(cancelled), closes]
            else:
                raise ValueError(op)
        except (UserBaseExc, UserExc):
            raise
        except Exception as exc:  # an exception of the library where none belongs: an outcome, not a crash
            rec["out"] = ["lib", type(exc).__name__, str(exc)[:80]]
            if mop is None:
                k = sum(1 for ev in self.log[n0:] if ev in ("pull", "send"))
                mop = ["tool", op[1], k, False, False]
        rec["seg"] = self.log[n0:]
        rec["dead"] = u_dead(self.spec, self.u)
        self.recs.append(rec)
        self.mops.append(mop)

    def run(self):
        for op in self.case["ops"]:
            self.perform(op)
        # abandoned tools are garbage-collected: that may close handles, never the underlying iterator
        n0 = len(self.log)
        dead_before = u_dead(self.spec, self.u)
        had_abandoned = bool(self.keep)
        self.keep.clear()
        if had_abandoned:
            _collect()
        gc_phase = {"seg": self.log[n0:], "dead_before": dead_before, "dead": u_dead(self.spec, self.u)}
        # the owner drains what is left
        drain = []
        nops = len(self.recs)
        for _ in range(len(self.spec["script"]) + 1):
            self.perform(["next", None])
        drain = self.recs[nops:]
        recs = self.recs[:nops]
        return {"ops": recs, "gc": gc_phase, "drain": drain, "mops": self.mops}


def _collect():
    """full collection that stays cheap in a process holding 10^5 cases and observations: everything
    that survives is moved to the permanent generation, so the next call scans only what is new"""
    gc.collect()
    gc.freeze()


# ---------------------------------------------------------------------------------------------
# the `conc` family (oracle only): a close arriving while another task is suspended inside the handle


def _step(co, val=None):
    try:
        return ("susp", co.send(val))
    except StopIteration as stop:
        return ("ret", stop.value)
    except BaseException as exc:  # noqa: B036
        return ("exc", exc)


def _outcome(st):
    r = type("R", (), {})()
    r.value, r.exc = (st[1], None) if st[0] == "ret" else (None, st[1])
    return _res(r)


def _npulls(log):
    return sum(1 for ev in log if ev in ("pull", "send"))


def _observe_conc(case):
    log = []
    u = make_u(case["u"], log)
    handles = [A.borrow(u)]
    for _ in range(case["depth"] - 1):
        handles.append(A.borrow(handles[-1]))
    inner, target = handles[-1], handles[case["level"]]
    got = []
    for _ in range(case["pre"]):
        got.append(_res(drive(inner.__anext__())))
    flight = inner.__anext__()
    st = _step(flight)
    suspended = st[0] == "susp"
    closer = target.aclose() if case["mode"] == "close" else A.iter(target).aclose()
    close_out = _res(drive(closer))
    closed_ok = close_out == ["value", ["n"]]
    steps = 0
    while st[0] == "susp" and steps < 50:
        st = _step(flight, ("r", st[1]))
        steps += 1
    flight_out = _outcome(st) if st[0] != "susp" else "stuck"
    close2 = None
    if case.get("retry") and not closed_ok:
        # the close was refused while the fetch was running: asked again once the fetch is over, it is carried out
        closer2 = target.aclose() if case["mode"] == "close" else A.iter(target).aclose()
        close2 = _res(drive(closer2))
        closed_ok = close2 == ["value", ["n"]]
    n1 = _npulls(log)
    post = [_res(drive(target.__anext__())) for _ in range(2)]
    n2 = _npulls(log)
    post_inner = _res(drive(inner.__anext__())) if inner is not target and closed_ok else None
    n3 = _npulls(log)
    closed_by_handle = "close" in log
    drain = []
    for _ in range(len(case["u"]["script"]) + 2):
        r = _res(drive(u.__anext__()))
        drain.append(r)
        if r == "stop" or (isinstance(r, list) and r[0] in ("lib",)):
            break
    return {"conc": {"suspended": suspended, "close": close_out, "close_again": close2, "closed_ok": closed_ok, "flight": flight_out, "pre": got,
                     "post": post, "post_inner": post_inner, "advanced_after_close": n2 - n1, "advanced_inner": n3 - n2,
                     "u_closed": closed_by_handle, "drain": drain},
            "ops": [], "drain": [], "mops": []}


def _judge_conc(case, obs):
    c = obs["conc"]
    issues = []
    if c["u_closed"]:
        issues.append(Issue("oracle", c, "underlying-closed:concurrent-close"))
    if c["closed_ok"]:
        # the close was accepted: from now on the handle yields nothing and does not advance the underlying iterator
        if any(p != "stop" for p in c["post"]) or c["advanced_after_close"]:
            issues.append(Issue("oracle", c, "closed-handle-still-live:concurrent-close"))
        if case["level"] < case["depth"] - 1 and c["post_inner"] is not None and (
                c["post_inner"] != "stop" or c["advanced_inner"]):
            # a handle borrowed from a closed handle has nothing left to take either
            issues.append(Issue("oracle", c, "closed-handle-still-live:concurrent-close:via-reborrow"))
    ids = [r[1] for r in c["pre"] + [c["flight"]] + c["post"] + ([c["post_inner"]] if c["post_inner"] else []) + c["drain"]
           if isinstance(r, list) and r[0] == "item"]
    want = [e[1] for e in case["u"]["script"] if e[0] == "i"]
    if ids != want and not any(e[0] == "f" for e in case["u"]["script"]):
        issues.append(Issue("oracle", dict(c, delivered=ids, script=want), "items-lost-or-duplicated:concurrent-close"))
    return issues


def _conc_cases():
    for kind in U_KINDS:
        if not kind.get("susp"):
            continue
        for n in (1, 3):
            for depth in (1, 2):
                for level in range(depth):
                    for mode in ("close", "citer"):
                        for pre in (0, 1):
                            yield {"family": "conc", "u": mk_u(kind, n), "ops": [], "depth": depth, "level": level,
                                   "mode": mode, "pre": pre}
                            yield {"family": "conc", "u": mk_u(kind, n), "ops": [], "depth": depth, "level": level,
                                   "mode": mode, "pre": pre, "retry": True}


# ---------------------------------------------------------------------------------------------
# the internal lightweight borrow of _core.py (used by islice and by nlargest / nsmallest): the helper generator that
# consumes the borrowed view (enumerate / zip over a range) finishes early and is closed — that must never reach the
# tool's own source, whatever methods the source has (asend/athrow or not, aclose or not)


def _coreborrow_cases():
    for kind in U_KINDS:
        for n in (3, 6):
            yield {"family": "coreborrow", "u": mk_u(kind, n), "ops": [], "tool": ["islice", 1, None, 1]}
            yield {"family": "coreborrow", "u": mk_u(kind, n), "ops": [], "tool": ["islice", 2, 5, 2]}
            yield {"family": "coreborrow", "u": mk_u(kind, n), "ops": [], "tool": ["nlargest", 2]}
            yield {"family": "coreborrow", "u": mk_u(kind, n), "ops": [], "tool": ["nsmallest", 1]}


def _observe_coreborrow(case):
    import heapq
    import itertools as it
    log = []
    u = make_u(case["u"], log)
    items = [Item(e[1], e[2]) for e in case["u"]["script"] if e[0] == "i"]
    t = case["tool"]
    if t[0] == "islice":
        got = _res(drive(A.list(A.islice(u, t[1], t[2], t[3]))))
        want = [x.id for x in it.islice(items, t[1], t[2], t[3])]
        need = len(items) if t[2] is None else min(len(items), t[2])
    else:
        f = A.nlargest if t[0] == "nlargest" else A.nsmallest
        got = _res(drive(f(u, t[1], key=lambda x: x.key)))
        want = [x.id for x in (heapq.nlargest if t[0] == "nlargest" else heapq.nsmallest)(t[1], items, key=lambda x: x.key)]
        need = len(items)
    first_close = next((i for i, ev in enumerate(log) if ev == "close"), None)
    pulls_before_close = _npulls(log if first_close is None else log[:first_close])
    return {"core": {"got": got, "want": want, "need": need, "pulls_before_close": pulls_before_close,
                     "pulls": _npulls(log), "closed": first_close is not None},
            "ops": [], "drain": [], "mops": []}


def _judge_coreborrow(case, obs):
    c = obs["core"]
    issues = []
    if c["closed"] and c["pulls_before_close"] < c["need"]:
        issues.append(Issue("oracle", c, "underlying-closed-through-internal-borrow:" + case["tool"][0]))
    got = c["got"]
    ids = [v[1] for v in got[1][1:]] if isinstance(got, list) and got[0] == "value" and got[1][0] == "l" else got
    if ids != c["want"]:
        issues.append(Issue("oracle", dict(c, ids=ids), "items-lost-through-internal-borrow:" + case["tool"][0]))
    return issues


_CACHE = {}


def _key_of(case):
    return id(case)


def observe(case):
    if case.get("family") == "borrowsend":
        return fam_borrow_send.observe(case)
    if case.get("family") == "conc":
        return _observe_conc(case)
    if case.get("family") == "coreborrow":
        return _observe_coreborrow(case)
    obs = Run(case).run()
    _CACHE[_key_of(case)] = (case, obs["mops"])
    return obs


def model_request(case):
    if case.get("family") == "borrowsend":
        return fam_borrow_send.model_request(case)
    if case.get("family") in ("conc", "coreborrow"):
        return None
    hit = _CACHE.get(_key_of(case))
    if hit is None or hit[0] is not case:
        observe(case)           # deterministic: the same derived machine operations as in the worker
        hit = _CACHE[_key_of(case)]
    gen, has_close, has_send = u_caps(case["u"])
    script = [["i", e[1]] if e[0] == "i" else ["f", e[1]] for e in case["u"]["script"]]
    return {"m": "borrow", "u": {"gen": gen, "close": has_close, "send": has_send, "script": script},
            "ops": hit[1]}


# ---------------------------------------------------------------------------------------------
# judging


def _scope_facts(case, obs):
    """replay the bookkeeping a reader of the property would do: which handle is borrowed/scoped,
    which context has which target/own handle (from the real outcomes)"""
    kinds, ctxs = [], []
    for op, rec in zip(case["ops"], obs["ops"]):
        out = rec["out"]
        if op[0] == "borrow" and isinstance(out, list) and out[0] == "handle":
            kinds.append("borrowed")
        elif op[0] == "enter" and isinstance(out, list) and out[0] == "entered":
            if out[2] is not None:
                kinds.append("scoped")
            ctxs.append({"target": op[1], "own": out[2]})
    return kinds, ctxs


def oracle(case, obs):
    """the properties' own predicates on what the real code did (no model involved)"""
    issues = []
    spec = case["u"]
    gen = spec["kind"] == "agen"
    kinds, ctxs = _scope_facts(case, obs)
    nk, nc = 0, 0
    closed = set()           # handles that were closed (C07) / whose scope ended (C08)
    dead = False
    seen_kinds, seen_ctxs = [], []
    parents = []      # parents[h] = the handle h was obtained from (None = the underlying iterator itself)

    def under_closed(h):
        """h iterates through a handle that is closed (its own wrapper is alive, but it pulls through a dead one)"""
        p = parents[h] if h < len(parents) else None
        while p is not None:
            if p in closed:
                return True
            p = parents[p] if p < len(parents) else None
        return False
    allrecs = list(zip(case["ops"], obs["ops"])) + [(["next", None], r) for r in obs["drain"]]
    for i, (op, rec) in enumerate(allrecs):
        tag, seg, out = op[0], rec["seg"], rec["out"]
        if tag == "borrow" and isinstance(out, list) and out[0] == "handle":
            seen_kinds.append("borrowed")
            parents.append(op[1])
        if tag == "enter" and isinstance(out, list) and out[0] == "entered":
            if out[2] is not None:
                seen_kinds.append("scoped")
                parents.append(op[1])
            seen_ctxs.append({"target": op[1], "own": out[2]})
        owner_close = (tag == "close" and op[1] is None) or (
            tag == "exit" and op[1] < len(seen_ctxs) and seen_ctxs[op[1]]["target"] is None
            and seen_ctxs[op[1]]["own"] is not None)
        # -- the underlying iterator is closed only by its owner / the outermost scope
        natural = any(ev in ("end", "killed") or (gen and isinstance(ev, list) and ev[0] == "err") for ev in seg)
        if not owner_close:
            if "close" in seg or (rec["dead"] and not dead and not natural):
                issues.append(Issue("oracle", {"op_index": i, "op": op, "seg": seg},
                                    "underlying-closed-by:" + tag + (":" + op[2]["name"] if tag == "tool" else "")))
        elif tag == "exit":
            # -- leaving the outermost scope closes the underlying iterator exactly once
            ncl = seg.count("close")
            if not rec["dead"] or (not gen and ncl != 1) or ncl > 1:
                issues.append(Issue("oracle", {"op_index": i, "op": op, "seg": seg, "dead": rec["dead"]},
                                    "scope-exit-closes-%s-times" % (ncl if rec["dead"] else "0")))
            if out != "ok":
                issues.append(Issue("oracle", {"op_index": i, "op": op, "out": out}, "scope-exit-raised-or-suppressed"))
        dead = rec["dead"]
        if isinstance(out, list) and out and out[0] == "lib":
            issues.append(Issue("oracle", {"op_index": i, "op": op, "out": out}, "library-error-on-" + tag))
        # -- items come out of the underlying iterator exactly once, to the operation that pulled them
        if tag in ("next", "ncancel", "send") and out != "invalid":
            got = [ev[1] for ev in seg if isinstance(ev, list) and ev[0] == "item"]
            want = [out[1]] if isinstance(out, list) and out[0] == "item" else []
            if got != want:
                issues.append(Issue("oracle", {"op_index": i, "op": op, "out": out, "seg": seg}, "item-lost-or-duplicated"))
        # -- a closed handle yields nothing and does not advance the underlying iterator
        tgt = op[1] if tag in ("next", "ncancel", "send", "tool") else None
        if tgt is not None and tgt not in closed and tag in ("next", "ncancel", "tool") and under_closed(tgt):
            # a handle obtained from a handle that has been closed in the meantime pulls through the dead one
            if seg:
                issues.append(Issue("oracle", {"op_index": i, "op": op, "seg": seg}, "handle-of-closed-handle-advances-underlying"))
        if tgt is not None and tgt in closed:
            if seg:
                issues.append(Issue("oracle", {"op_index": i, "op": op, "seg": seg}, "closed-handle-advances-underlying"))
            if tag != "tool" and out not in ("stop", "noattr"):
                issues.append(Issue("oracle", {"op_index": i, "op": op, "out": out}, "closed-handle-yields"))
        # bookkeeping of what is closed now
        if tag in ("close", "citer") and op[1] is not None and out == "ok":
            if op[1] < len(seen_kinds) and seen_kinds[op[1]] == "borrowed":
                closed.add(op[1])
        if tag == "tool" and out == "tool" and rec.get("closes"):
            if op[1] < len(seen_kinds) and seen_kinds[op[1]] == "borrowed":
                closed.add(op[1])
        if tag == "exit" and out == "ok" and op[1] < len(seen_ctxs):
            cx = seen_ctxs[op[1]]
            if cx["own"] is not None:
                closed.add(cx["own"])
                if cx["target"] is not None and seen_kinds[cx["target"]] == "borrowed":
                    closed.add(cx["target"])
    # -- garbage-collecting abandoned tools never touches the underlying iterator
    if obs["gc"]["seg"] or obs["gc"]["dead"] != obs["gc"]["dead_before"]:
        issues.append(Issue("oracle", obs["gc"], "underlying-closed-by:gc-of-abandoned-tool"))
    # -- the owner gets every remaining item, in order
    log_before = [ev for rec in obs["ops"] for ev in rec["seg"]]
    consumed = sum(1 for ev in log_before if isinstance(ev, list) and ev[0] in ("item", "err"))
    dead_before_drain = obs["gc"]["dead_before"]
    expected = []
    if not dead_before_drain:
        for e in spec["script"][consumed:]:
            if e[0] == "i":
                expected.append(e[1])
            elif gen:
                break
    drained = [r["out"][1] for r in obs["drain"] if isinstance(r["out"], list) and r["out"][0] == "item"]
    if drained != expected:
        issues.append(Issue("oracle", {"drained": drained, "expected": expected}, "owner-does-not-get-remaining-items"))
    return issues


def judge(case, obs, model):
    if case.get("family") == "borrowsend":
        return fam_borrow_send.judge(case, obs, model)
    if case.get("family") == "conc":
        return _judge_conc(case, obs)
    if case.get("family") == "coreborrow":
        return _judge_coreborrow(case, obs)
    issues = oracle(case, obs)
    issues += ref_issues(case, obs)
    if model is not None:
        if "error" in model:
            issues.append(Issue("A", model))
            return issues
        recs = obs["ops"] + obs["drain"]
        if len(recs) != len(model["ops"]):
            issues.append(Issue("A", {"len_real": len(recs), "len_model": len(model["ops"])}))
            return issues
        allops = case["ops"] + [["next", None]] * len(obs["drain"])
        for i, (op, rec, m) in enumerate(zip(allops, recs, model["ops"])):
            diff = {}
            if rec["seg"] != m["seg"]:
                diff["seg"] = [rec["seg"], m["seg"]]
            if rec["dead"] != m["dead"]:
                diff["dead"] = [rec["dead"], m["dead"]]
            if rec["out"] != "tool" and [rec["out"]] != m["out"]:
                diff["out"] = [rec["out"], m["out"]]
            if diff:
                issues.append(Issue("A", {"op_index": i, "op": op, "real_vs_model": diff}))
                break
        if not model["final"]["consistent"]:
            issues.append(Issue("MS", {"what": "exec over flattened ops differs from stepwise run"}))
        if any("stuck" in m["out"] for m in model["ops"]):
            issues.append(Issue("MS", {"what": "machine ran out of fuel"}))
    return issues


# ---------------------------------------------------------------------------------------------
# C08's shared-iterator reference (used when the case is flagged "ref")


def ref_run(case):
    """the same block with a shared synchronous iterator and the stdlib tools"""
    items = [Item(e[1], e[2]) for e in case["u"]["script"] if e[0] == "i"]
    it = builtins.iter(items)
    outs = []
    depth_u = 0    # number of open scopes (the outermost closes the iterator)
    ctx_open = []
    for op in case["ops"]:
        tag = op[0]
        if tag == "enter":
            ctx_open.append(True)
            outs.append(None)
        elif tag == "exit":
            ctx_open[op[1]] = False
            if op[1] == 0:
                it = builtins.iter(())      # the outermost scope ended: nothing further
            outs.append(None)
        elif tag == "next":
            try:
                v = builtins.next(it)
                outs.append(["item", v.id])
            except StopIteration:
                outs.append("stop")
        elif tag == "tool":
            name, p = op[2]["name"], op[2].get("p", {})
            _, mk, kind = TOOLS[name]
            take, fin = op[2].get("take", 0), op[2]["fin"]
            res = []
            if kind == "agg":
                try:
                    res.append(["returned", _canon_out(mk(it, p))])
                except BaseException as exc:  # noqa: B036
                    res.append(["lib", type(exc).__name__])
            else:
                thing = mk(it, p)
                src = thing[0] if kind == "tee" else thing
                n = 0
                while fin == "exhaust" or n < take:
                    try:
                        v = builtins.next(src)
                    except StopIteration:
                        res.append("stop")
                        break
                    except Exception as exc:
                        res.append(["lib", type(exc).__name__])
                        break
                    if kind == "groupby":
                        res.append(["y", [canon(v[0]), [canon(x) for x in v[1]]]])
                    else:
                        res.append(["y", _canon_out(v)])
                    n += 1
            outs.append(res)
        else:
            outs.append(None)
    return outs


def _norm_tool(name, outs):
    # what closing the tool itself raised is C04's subject (e.g. groupby.aclose() before the first advance)
    outs = [o for o in outs if not (isinstance(o, list) and o and o[0] in ("close-raised", "handle-close-raised"))]
    outs = [o[:2] if isinstance(o, list) and o and o[0] == "lib" else o for o in outs]
    if name in UNORDERED:
        def srt(v):
            if isinstance(v, list) and v and v[0] in ("l", "t", "set"):
                return [v[0]] + sorted(v[1:], key=repr)
            return v
        return [[o[0], srt(o[1])] if isinstance(o, list) and len(o) == 2 else o for o in outs]
    return outs


def ref_issues(case, obs):
    if not case.get("ref"):
        return []
    want = ref_run(case)
    for i, (op, rec, w) in enumerate(zip(case["ops"], obs["ops"], want)):
        if w is None:
            continue
        if op[0] == "next":
            got = rec["out"]
        else:
            got = _norm_tool(op[2]["name"], rec.get("tool_out", []))
            w = _norm_tool(op[2]["name"], w)
        if got != w:
            return [Issue("oracle", {"op_index": i, "op": op, "real": got, "shared_sync_iterator": w},
                          "differs-from-shared-sync-iterator:" + (op[2]["name"] if op[0] == "tool" else "next"))]
    return []


# ---------------------------------------------------------------------------------------------
# evidence helpers


def features(case, obs):
    if case.get("family") == "borrowsend":
        return fam_borrow_send.features(case, obs)
    if case.get("family") == "coreborrow":
        return ["family=coreborrow", "coreborrow:" + case["tool"][0], "u=" + case["u"]["kind"]]
    if case.get("family") == "conc":
        c = obs["conc"]
        return ["family=conc", "conc-close-" + ("accepted" if c["closed_ok"] else "refused"),
                "conc-in-flight" if c["suspended"] else "conc-not-suspended"]
    f = ["u=" + case["u"]["kind"], "ops=%d" % len(case["ops"])]
    if case["u"]["kind"] == "obj":
        f.append("caps=%s%s%s" % ("c" if case["u"].get("close") else "-", "s" if case["u"].get("send") else "-",
                                  "t" if case["u"].get("throw") else "-"))
    if case["u"].get("susp"):
        f.append("u-suspends")
    if any(e[0] == "f" for e in case["u"]["script"]):
        f.append("u-faults")
    for op in case["ops"]:
        f.append("op=" + op[0])
        if op[0] == "tool":
            f.append("tool=" + op[2]["name"])
            f.append("fin=" + op[2]["fin"])
        if op[0] == "exit":
            f.append("exit=" + (op[2] if isinstance(op[2], str) else "exc"))
    for rec, mop in zip(obs["ops"], obs["mops"]):
        if rec["out"] == "cancelled":
            f.append("cancel-delivered")
        if mop[0] == "tool" and mop[3]:
            f.append("cancel-delivered-inside-tool")
    if case.get("ref"):
        f.append("shared-sync-reference")
    return f


def nontrivial(case, obs):
    if case.get("family") == "borrowsend":
        return fam_borrow_send.nontrivial(case, obs)
    if case.get("family") == "coreborrow":
        return obs["core"]["pulls"] > 0
    if case.get("family") == "conc":
        return obs["conc"]["suspended"]
    through = any(op[0] in ("next", "send", "tool") and op[1] is not None and any(
        isinstance(ev, list) and ev[0] == "item" for ev in rec["seg"]) for op, rec in zip(case["ops"], obs["ops"]))
    closes = any(op[0] in ("close", "citer", "tool", "exit") for op in case["ops"])
    return through and closes


# ---------------------------------------------------------------------------------------------
# case generation

U_KINDS = [
    {"kind": "agen"},
    {"kind": "obj", "close": True, "send": True, "throw": True},
    {"kind": "obj", "close": True, "send": False, "throw": False},
    {"kind": "obj", "close": False, "send": False, "throw": False},
    {"kind": "obj", "close": False, "send": True, "throw": True},
    {"kind": "obj", "close": True, "send": True, "throw": False},
    {"kind": "agen", "susp": 1},
    {"kind": "obj", "close": True, "send": False, "throw": True, "susp": 1},
]


def mk_u(kind, n, faults=(), base=1):
    script = []
    for i in range(n):
        if i in faults:
            script.append(["f", 70 + i])
        else:
            script.append(["i", base + i, (base + i) % 3])
    return dict(kind, script=script)


def valid_seq(seq, nh0=0):
    """handles must exist when used"""
    nh = nh0
    for op in seq:
        t = op[1]
        if t is not None and not (isinstance(t, int) and t < nh):
            return False
        if op[0] == "borrow":
            nh += 1
    return True


def alphabet(tools):
    syms = [["next", None], ["next", 0], ["next", 1], ["close", 0], ["close", 1], ["citer", 0], ["send", 0],
            ["send", 1], ["borrow", None], ["borrow", 0]]
    for t in tools:
        syms.append(["tool", 0, t])
    return syms


def exhaustive(maxlen, tools):
    syms = alphabet(tools)
    for n in range(1, maxlen + 1):
        for seq in itertools.product(syms, repeat=n):
            seq = [list(op) for op in seq]
            if seq[0][0] != "borrow" or not valid_seq(seq):
                continue
            yield seq


def random_seq(rng, nops, cancel_ok, scopes=False, has_close=True):
    ops, nh = [], 0
    kinds = []
    nctx, ctx_open = 0, []
    for _ in range(nops):
        r = rng.random()
        if nh == 0 or r < 0.15:
            t = None if nh == 0 or rng.random() < 0.5 else rng.randrange(nh)
            if scopes and rng.random() < 0.5:
                ops.append(["enter", t])
                ctx_open.append(nctx)
                nctx += 1
                if t is None and not has_close:
                    continue          # nullcontext: no handle is created
            else:
                ops.append(["borrow", t])
            nh += 1
            continue
        h = rng.randrange(nh)
        if r < 0.40:
            ops.append(["next", h if rng.random() < 0.8 else None])
        elif r < 0.47:
            ops.append(["send", h])
        elif r < 0.57:
            ops.append([rng.choice(["close", "citer"]), h])
        elif r < 0.62 and cancel_ok:
            ops.append(["ncancel", h])
        elif r < 0.70 and scopes and ctx_open:
            c = rng.choice(ctx_open)
            ctx_open.remove(c)
            ops.append(["exit", c, rng.choice(["normal", "cancel", ["exc", 31]])])
        else:
            fins = ["close", "exhaust", "abandon"] + (["cancel"] if cancel_ok else [])
            name = rng.choice(TOOL_NAMES)
            fin = rng.choice(fins)
            if name in INFINITE and fin == "exhaust":
                fin = "close"
            ops.append(["tool", h, {"name": name, "take": rng.randint(0, 3), "fin": fin,
                                    "p": {"n": rng.randint(0, 3)} if name in ("islice", "batched") else {}}])
            if ops[-1][2]["name"] == "batched" and ops[-1][2]["p"]["n"] == 0:
                ops[-1][2]["p"]["n"] = 1
    return ops


def cases(tier, rng):
    quick = tier == "quick"
    yield from _conc_cases()
    yield from _coreborrow_cases()
    # handle trees with asend / athrow / scope exits (Machines/BorrowSend.lean)
    yield from fam_borrow_send.cases(rng, 2000 if quick else 30000)
    small_tools = [{"name": "islice", "take": 1, "fin": "close", "p": {"n": 2}}]
    n = 0
    for seq in exhaustive(5 if quick else 6, small_tools):
        n += 1
        kind = U_KINDS[n % 6]
        yield {"u": mk_u(kind, 3), "ops": seq}
    # every tool x every way of finishing x take, on a borrowed handle and on a re-borrowed one
    fins = ["close", "exhaust", "abandon", "cancel"]
    for name in TOOL_NAMES:
        for fin in fins:
            if name in INFINITE and fin == "exhaust":
                continue
            for take in range(0, 3 if quick else 4):
                for ki, kind in enumerate(U_KINDS if not quick else [U_KINDS[(take + len(name)) % 6], U_KINDS[6 + take % 2]]):
                    if fin == "cancel" and not kind.get("susp"):
                        continue
                    tool = {"name": name, "take": take, "fin": fin, "p": {"n": 2}}
                    yield {"u": mk_u(kind, 5), "ops": [["borrow", None], ["next", 0], ["tool", 0, tool], ["next", 0],
                                                       ["send", 0], ["next", None]]}
                    yield {"u": mk_u(kind, 4, faults=(2,)), "ops": [["borrow", None], ["borrow", 0], ["tool", 1, tool],
                                                                    ["next", 1], ["next", 0], ["close", 0]]}
    nr = 2500 if quick else 150000
    for i in range(nr):
        kind = rng.choice(U_KINDS)
        nitems = rng.randint(0, 7)
        faults = tuple(j for j in range(nitems) if rng.random() < 0.12)
        yield {"u": mk_u(kind, nitems, faults), "ops": random_seq(rng, rng.randint(2, 10 if quick else 14),
                                                                 bool(kind.get("susp")))}


def search_cases(broken, rng):
    yield from _conc_cases()
    yield from _coreborrow_cases()
    for case in broken:
        if case.get("family") in ("conc", "coreborrow") or "u" not in case:
            continue        # family cases (borrowsend, ...) carry their own description: no neighbours to derive
        for kind in U_KINDS:
            u = dict(kind, script=case["u"]["script"])
            yield {"u": u, "ops": [op for op in case["ops"] if op[0] != "ncancel" or kind.get("susp")]}
        for cut in range(1, len(case["ops"])):
            yield dict(case, ops=case["ops"][:cut])
    for _ in range(1500):
        kind = rng.choice(U_KINDS)
        yield {"u": mk_u(kind, rng.randint(0, 6)), "ops": random_seq(rng, rng.randint(2, 9), bool(kind.get("susp")), scopes=True,
                                                                    has_close=kind["kind"] == "agen" or bool(kind.get("close")))}
