"""C20 — streaming tools retain a bounded number of items however long the stream."""
import gc
import weakref

from framework import Issue
from world import Item, asyncstdlib, drive

A = asyncstdlib
RULE = (
    "every streaming tool and single-pass aggregation is run over streams of N items (N in two sizes) created on demand "
    "by a class-based async source that tracks each item through a weak reference; after every consumer step (generators) "
    "or at every pull (aggregations) the consumer drops what it received, gc.collect() runs and the live source items are "
    "counted; the maximum over the run must stay within a small constant per source plus the tool's documented window "
    "(batch size, n of nlargest/nsmallest, one head per source for merge, lead of the fastest over the slowest live child "
    "for tee) and must not grow between the two stream sizes. groupby: no key / identity key / derived key x all-distinct, "
    "runs, one run, alternating streams x groups drained / skipped / first item only / re-advanced after they ended. tee: lockstep, bounded lead, lag-then-catch-up, early close of a "
    "started child, child closed before it was started, child ended by an exception thrown in / by a transient source error. non-trivial = every case; distinct by (tool, pattern, N)"
)
EXHAUSTIVE = {"quick": False, "thorough": False}
SCOPE = {"quick": "N in {60, 240} (x4 for windows above 64)", "thorough": "N in {200, 2000}"}
ASSUMPTIONS = ["CPython reference counting plus gc.collect() after every step; interpreter temporaries are covered by the slack constant",
               "tools documented to accumulate (cycle, sorted, list/tuple/set/dict, tee for lagging children) are not bounded"]
SLACK = 3
HEAVY = True   # few, long cases: one worker per case
CASE_TIMEOUT = 600   # the thorough sizes run gc.collect() a few thousand times per case
AMPLIFY = "search"   # a changed source amplifies through search_cases (a third, larger stream size), not the thorough tier


class Source:
    """class-based async source creating items on demand; `probe` is called at every pull (before the new item exists)"""

    def __init__(self, n, refs, probe=None, base=0, keyf=None):
        self.n, self.i, self.refs, self.probe, self.base, self.keyf = n, 0, refs, probe, base, keyf
        self.fail_next = False

    def __aiter__(self):
        return self

    async def __anext__(self):
        if self.probe is not None:
            self.probe()
        if self.fail_next:
            self.fail_next = False
            raise ConnectionResetError("transient")
        if self.i >= self.n:
            raise StopAsyncIteration
        k = self.keyf(self.i) if self.keyf else self.i
        it = Item(self.base + self.i, k)
        self.i += 1
        self.refs.append(weakref.ref(it))
        return it

    async def aclose(self):
        self.i = self.n
        if self.close_error is not None:
            raise self.close_error

    close_error = None


class Page:
    """an async iterator that carries its own data (a fetched page / chunk): whoever keeps the page keeps its rows"""

    def __init__(self, rows):
        self.rows, self.i = rows, 0

    def __aiter__(self):
        return self

    async def __anext__(self):
        if self.i >= len(self.rows):
            raise StopAsyncIteration
        self.i += 1
        return self.rows[self.i - 1]

    async def aclose(self):
        self.i = len(self.rows)


class PageSource(Source):
    """outer stream of pages of 3 rows each (n rows in total)"""

    async def __anext__(self):
        if self.probe is not None:
            self.probe()
        if self.i >= self.n:
            raise StopAsyncIteration
        rows = [Item(self.base + j, j) for j in range(self.i, min(self.i + 3, self.n))]
        self.i += 3
        self.refs.extend(weakref.ref(r) for r in rows)
        page = Page(rows)
        self.refs.append(weakref.ref(page))    # the pages are the items of the outer stream
        return page


class Book:
    """a re-iterable (not an iterator) owning its rows; every __aiter__ gives a fresh cursor that refers back to the book"""

    def __init__(self, rows):
        self.rows = rows

    def __aiter__(self):
        cur = Page(self.rows)
        cur.book = self
        return cur


class BookSource(PageSource):
    """outer stream of re-iterable books of 3 rows each: the iterators the tool obtains from them are its own"""

    async def __anext__(self):
        page = await PageSource.__anext__(self)
        book = Book(page.rows)
        self.refs.append(weakref.ref(book))
        return book


class LazyReiterable:
    """a *synchronous* iterable that is neither an iterator nor a sequence and produces its items on demand
    (a record reader, a paginated result): draining it up front keeps the whole stream alive"""

    def __init__(self, n, refs, probe=None, base=0, keyf=None):
        self.n, self.refs, self.probe, self.base, self.keyf = n, refs, probe, base, keyf

    def __iter__(self):
        for i in range(self.n):
            if self.probe is not None:
                self.probe()
            it = Item(self.base + i, self.keyf(i) if self.keyf else i)
            self.refs.append(weakref.ref(it))
            yield it
            del it
        if self.probe is not None:
            self.probe()


class Num(float):
    """a float that can be tracked by a weak reference (a measurement record that behaves like its value)"""

    __slots__ = ("__weakref__",)


class NumSource(Source):
    """stream of summable numbers (float subclass instances): `sum` / `accumulate` / `reduce(operator.add)` see the
    tracked source items themselves, not values mapped from them"""

    async def __anext__(self):
        if self.probe is not None:
            self.probe()
        if self.i >= self.n:
            raise StopAsyncIteration
        it = Num(self.i % 7)
        self.i += 1
        self.refs.append(weakref.ref(it))
        return it


class SizedSource(Source):
    """an async iterable that knows its length (a query result with a row count) but produces its rows on demand"""

    def __len__(self):
        return self.n


class SizedReiterable(LazyReiterable):
    def __len__(self):
        return self.n


SRC_CLASS = {"sized": SizedSource, "sizedsync": SizedReiterable, "pages": PageSource, "books": BookSource, "reiter": LazyReiterable, "nums": NumSource}


def alive(refs):
    gc.collect()
    return sum(1 for r in refs if r() is not None)


def _last(a, b):
    return b


TOOLS = {
    # name: (builder(sources) -> async iterator, number of sources, window)
    "filter": (lambda S: A.filter(lambda x: x.key % 2, S[0]), 1, 0),
    "filterfalse": (lambda S: A.filterfalse(lambda x: x.key % 2, S[0]), 1, 0),
    "enumerate": (lambda S: A.enumerate(S[0]), 1, 0),
    "takewhile": (lambda S: A.takewhile(lambda x: True, S[0]), 1, 0),
    "dropwhile": (lambda S: A.dropwhile(lambda x: x.key < 5, S[0]), 1, 0),
    "starmap": (lambda S: A.starmap(_last, A.zip(S[0], S[1])), 2, 0),
    "accumulate": (lambda S: A.accumulate(S[0], _last), 1, 1),
    "batched3": (lambda S: A.batched(S[0], 3), 1, 3),
    "batched7": (lambda S: A.batched(S[0], 7), 1, 7),
    "chain": (lambda S: A.chain(S[0], S[1]), 2, 0),
    "compress": (lambda S: A.compress(S[0], S[1]), 2, 0),
    "islice": (lambda S: A.islice(S[0], 3, None, 2), 1, 0),
    "pairwise": (lambda S: A.pairwise(S[0]), 1, 1),
    "zip": (lambda S: A.zip(S[0], S[1], S[2]), 3, 0),
    "zip_strict": (lambda S: A.zip(S[0], S[1], strict=True), 2, 0),
    "map": (lambda S: A.map(_last, S[0], S[1]), 2, 0),
    "zip_longest": (lambda S: A.zip_longest(S[0], S[1]), 2, 0),
    "merge2": (lambda S: A.merge(S[0], S[1]), 2, 2),
    "merge3key": (lambda S: A.merge(S[0], S[1], S[2], key=lambda x: x.key), 3, 3),
    # inner iterables that own their rows: the chain may keep the current page only
    "chain_from_iterable_pages": (lambda S: A.chain.from_iterable(S[0]), 1, 4, "pages"),
    "chain_from_iterable_books": (lambda S: A.chain.from_iterable(S[0]), 1, 5, "books"),
    "zip_sized": (lambda S: A.zip(S[0], S[1]), 2, 0, "sized"), "batched3_sized": (lambda S: A.batched(S[0], 3), 1, 3, "sized"),
    "islice_sized": (lambda S: A.islice(S[0], 1, None, 2), 1, 0, "sized"), "enumerate_sizedsync": (lambda S: A.enumerate(S[0]), 1, 0, "sizedsync"),
    # lazily producing synchronous re-iterables (not Iterator, not Sequence)
    "filter_reiter": (lambda S: A.filter(lambda x: x.key % 2, S[0]), 1, 0, "reiter"),
    "zip_reiter": (lambda S: A.zip(S[0], S[1]), 2, 0, "reiter"),
    "batched3_reiter": (lambda S: A.batched(S[0], 3), 1, 3, "reiter"),
    "merge2_reiter": (lambda S: A.merge(S[0], S[1]), 2, 2, "reiter"),
}
AGGS = {
    "all": (lambda S: A.all(S[0]), 0), "any": (lambda S: A.any(A.map(lambda x: False, S[0])), 0),
    "sum": (lambda S: A.sum(A.map(lambda x: 1, S[0])), 0),
    "min": (lambda S: A.min(S[0]), 1), "max": (lambda S: A.max(S[0], key=lambda x: x.key), 1),
    "reduce": (lambda S: A.reduce(_last, S[0]), 1),
    "nlargest4": (lambda S: A.nlargest(S[0], 4), 4), "nsmallest3": (lambda S: A.nsmallest(S[0], 3, key=lambda x: -x.key), 3),
    # streams full of ties (equal keys): the window must still be n
    "nlargest4_ties": (lambda S: A.nlargest(S[0], 4), 4, lambda i: i % 3),
    "nsmallest3_const_key": (lambda S: A.nsmallest(S[0], 3, key=lambda x: 0), 3),
    "nlargest2_all_equal": (lambda S: A.nlargest(S[0], 2), 2, lambda i: 7),
    "min_ties": (lambda S: A.min(S[0]), 1, lambda i: i % 2), "max_all_equal": (lambda S: A.max(S[0]), 1, lambda i: 5),
    "sum_reiter": (lambda S: A.sum(A.map(lambda x: 1, S[0])), 0, None, "reiter"),
    # the summed objects are the tracked items themselves, with every kind of start value
    "sum_nums": (lambda S: A.sum(S[0]), 1, None, "nums"), "sum_nums_float_start": (lambda S: A.sum(S[0], 0.0), 1, None, "nums"),
    "sum_nums_int_start": (lambda S: A.sum(S[0], 5), 1, None, "nums"), "sum_nums_num_start": (lambda S: A.sum(S[0], Num(1)), 1, None, "nums"),
    "reduce_add_nums": (lambda S: A.reduce(lambda a, b: a + b, S[0]), 1, None, "nums"),
    "max_nums": (lambda S: A.max(S[0]), 1, None, "nums"),
    "nlargest4_reiter": (lambda S: A.nlargest(S[0], 4), 4, None, "reiter"),
    "min_reiter": (lambda S: A.min(S[0]), 1, None, "reiter"),
    # a window larger than any plausible "small n" threshold
    "nlargest100": (lambda S: A.nlargest(S[0], 100), 100), "nsmallest70_key": (lambda S: A.nsmallest(S[0], 70, key=lambda x: x.key), 70),
    # inputs with a length that still produce their items lazily: a short-cut taken "when n >= len" must not collect them all
    "nlargest4_sized": (lambda S: A.nlargest(S[0], 4), 4, None, "sized"), "nsmallest3_sized": (lambda S: A.nsmallest(S[0], 3), 3, None, "sized"),
    "nlargest4_sizedsync": (lambda S: A.nlargest(S[0], 4), 4, None, "sizedsync"), "min_sized": (lambda S: A.min(S[0]), 1, None, "sized"),
    "max_sizedsync": (lambda S: A.max(S[0]), 1, None, "sizedsync"), "sum_sized": (lambda S: A.sum(A.map(lambda x: 1, S[0])), 0, None, "sized"),
    "reduce_sized": (lambda S: A.reduce(_last, S[0]), 1, None, "sized"), "all_sizedsync": (lambda S: A.all(S[0]), 0, None, "sizedsync"),
}
TEE_PATTERNS = ["tee-closed-while-a-child-lags", "tee-closed-source-close-fails", "lockstep", "lead5", "lag-then-catch-up", "close-started-child", "close-unstarted-child",
                "child-killed-by-athrow", "child-killed-by-source-error"]


GROUPBY_KEYS = {"nokey": None, "identity": lambda x: x, "derived": lambda x: x.key}
GROUPBY_SHAPES = {"all-distinct": lambda i: i, "runs-of-3": lambda i: i // 3, "one-run": lambda i: 0, "alternating": lambda i: i % 2}
GROUPBY_USE = ["drain-groups", "skip-groups", "first-of-each", "re-advance-finished-group"]


def _run_groupby(keyname, shape, use, n):
    refs = []
    src = Source(n, refs, keyf=GROUPBY_SHAPES[shape])
    keyf = GROUPBY_KEYS[keyname]
    g = A.groupby(src) if keyf is None else A.groupby(src, key=keyf)
    worst = 0
    while True:
        res = drive(g.__anext__())
        if res.exc is not None:
            break
        k, grp = res.value
        res.value = None
        del res, k
        if use != "skip-groups":
            while True:
                r = drive(grp.__anext__())
                if r.exc is not None:
                    if use == "re-advance-finished-group":
                        r = drive(grp.__anext__())
                    break
                r.value = None
                del r
                worst = max(worst, alive(refs))
                if use == "first-of-each":
                    break
            r = None
        del grp
        worst = max(worst, alive(refs))
    return worst


def cases(tier, rng):
    sizes = (60, 240) if tier == "quick" else (200, 2000)
    for keyname in GROUPBY_KEYS:
        for shape in GROUPBY_SHAPES:
            for use in GROUPBY_USE:
                yield {"tool": "groupby", "family": "groupby", "key": keyname, "shape": shape, "use": use, "sizes": list(sizes)}
    for name in TOOLS:
        yield {"tool": name, "family": "gen", "sizes": list(sizes)}
    for name in AGGS:
        big = AGGS[name][1] > 50         # both stream sizes must exceed the window
        yield {"tool": name, "family": "agg", "sizes": [4 * n for n in sizes] if big else list(sizes)}
    for pat in TEE_PATTERNS:
        for nchild in (2, 3):
            yield {"tool": "tee", "family": "tee", "pattern": pat, "children": nchild, "sizes": list(sizes)}
            if pat in ("close-started-child", "child-killed-by-athrow", "lockstep"):
                yield {"tool": "tee", "family": "tee", "pattern": pat, "children": nchild, "sizes": list(sizes), "noclose": True}


def _run_gen(name, n):
    build, nsrc = TOOLS[name][0], TOOLS[name][1]
    refs = []
    cls = SRC_CLASS.get(TOOLS[name][3], Source) if len(TOOLS[name]) > 3 else Source
    S = [cls(n, refs, base=1000000 * i) for i in range(nsrc)]
    it = build(S)
    worst = 0
    while True:
        res = drive(it.__anext__())
        if res.exc is not None:
            break
        res.value = None
        del res
        worst = max(worst, alive(refs))
    return worst


def _run_agg(name, n):
    build = AGGS[name][0]
    keyf = AGGS[name][2] if len(AGGS[name]) > 2 and AGGS[name][2] is not None else (lambda i: (i * 7919) % 1000)
    cls = SRC_CLASS.get(AGGS[name][3], Source) if len(AGGS[name]) > 3 else Source
    refs = []
    state = {"worst": 0}

    def probe():
        state["worst"] = max(state["worst"], alive(refs))
    S = [cls(n, refs, probe, keyf=keyf)]
    res = drive(build(S))
    if res.exc is not None:
        return -1
    return state["worst"]


class NoCloseSource:
    """class-based async source WITHOUT aclose: there is nothing to close, the children's bookkeeping must still be done"""

    def __init__(self, n, refs):
        self._inner = Source(n, refs)

    def __aiter__(self):
        return self

    def __anext__(self):
        return self._inner.__anext__()


def _run_tee(pattern, nchild, n, noclose=False):
    refs = []
    src = NoCloseSource(n, refs) if noclose else Source(n, refs)
    t = A.tee(src, n=nchild)
    kids = list(t)
    pos = [0] * nchild
    worst, worst_excess = 0, -10

    def step(i):
        nonlocal worst, worst_excess
        res = drive(kids[i].__anext__())
        ok = res.exc is None
        res.value = None
        del res
        if ok:
            pos[i] += 1
        live = [pos[j] for j in range(nchild) if j not in closed]
        lead = max(live) - min(live) if live else 0
        a = alive(refs)
        worst = max(worst, a)
        worst_excess = max(worst_excess, a - lead)
        return ok
    closed = set()
    if pattern == "lockstep":
        while step(0):
            for i in range(1, nchild):
                step(i)
    elif pattern == "lead5":
        for _ in range(5):
            step(0)
        while step(0):
            for i in range(1, nchild):
                step(i)
    elif pattern == "lag-then-catch-up":
        for _ in range(n // 2):
            step(0)
        for i in range(1, nchild):
            for _ in range(n // 2):
                step(i)
        while step(0):
            for i in range(1, nchild):
                step(i)
    elif pattern == "close-started-child":
        for i in range(nchild):
            step(i)
        drive(kids[nchild - 1].aclose())
        closed.add(nchild - 1)
        while step(0):
            for i in range(1, nchild - 1):
                step(i)
    elif pattern in ("child-killed-by-athrow", "child-killed-by-source-error"):
        for i in range(nchild):
            step(i)
        victim = nchild - 1
        if pattern == "child-killed-by-athrow":
            drive(kids[victim].athrow(ValueError("consumer gave up")))
        else:
            src.fail_next = True          # the victim is the one fetching: every buffer is empty in lockstep
            drive(kids[victim].__anext__())
        closed.add(victim)
        while step(0):
            for i in range(1, nchild - 1):
                step(i)
    elif pattern in ("tee-closed-while-a-child-lags", "tee-closed-source-close-fails"):
        # the last child is handed out but never advanced (its backlog is the documented lead); closing the whole tee
        # leaves no live child, so nothing of the stream may stay alive afterwards - also when closing the source fails
        if pattern == "tee-closed-source-close-fails":
            src.close_error = OSError("connection lost")
        for _ in range(n - 10):
            for i in range(nchild - 1):
                step(i)
        drive(t.aclose())
        closed.update(range(nchild))
        a = alive(refs)
        worst_excess = max(worst_excess, a)
    elif pattern == "close-unstarted-child":
        drive(kids[nchild - 1].aclose())
        closed.add(nchild - 1)
        while step(0):
            for i in range(1, nchild - 1):
                step(i)
    return {"worst": worst, "worst_excess_over_lead": worst_excess}


def observe(case):
    out = {"async": {"out": ["returned", ["n"]], "vis": []}}
    runs = []
    for n in case["sizes"]:
        if case["family"] == "gen":
            runs.append(_run_gen(case["tool"], n))
        elif case["family"] == "agg":
            runs.append(_run_agg(case["tool"], n))
        elif case["family"] == "groupby":
            runs.append(_run_groupby(case["key"], case["shape"], case["use"], n))
        else:
            runs.append(_run_tee(case["pattern"], case["children"], n, case.get("noclose", False)))
    out["runs"] = runs
    return out


def bound(case):
    if case["family"] == "gen":
        nsrc, window = TOOLS[case["tool"]][1], TOOLS[case["tool"]][2]
        return 2 * nsrc + window + SLACK
    if case["family"] == "agg":
        return 2 + AGGS[case["tool"]][1] + SLACK
    if case["family"] == "groupby":
        return 3 + SLACK    # itertools.groupby keeps tgtkey, currkey, currvalue
    return 2 + SLACK     # tee: excess over the lead of the fastest over the slowest live child


def model_request(case):
    return None


def judge(case, obs, model):
    issues = []
    b = bound(case)
    if case["family"] == "tee":
        vals = [r["worst_excess_over_lead"] for r in obs["runs"]]
        what = "tee:" + case["pattern"]
    else:
        vals = obs["runs"]
        what = case["tool"]
        if case["family"] == "groupby":
            what = "groupby:%s:%s:%s" % (case["key"], case["shape"], case["use"])
    if any(v < 0 for v in vals) and case["family"] != "tee":
        issues.append(Issue("oracle", {"runs": obs["runs"]}, "aggregation-failed:" + what))
    elif max(vals) > b or vals[-1] > vals[0] + SLACK:
        issues.append(Issue("oracle", {"retained": obs["runs"], "bound": b, "sizes": case["sizes"]}, "retention-grows:" + what))
    return issues


def features(case, obs):
    return ["family=" + case["family"], "tool=" + case["tool"]]


def nontrivial(case, obs):
    return True


def search_cases(broken, rng):
    """a third stream size: growth that only shows between 240 and 720 items (amortised containers, thresholds)"""
    for case in cases("quick", rng):
        yield dict(case, sizes=[120, 720])
