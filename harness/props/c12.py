"""C12 — cached_property computes once, serves one value to all, recomputes after del."""
import asyncio
import sys
import functools
import itertools
import warnings

from framework import Issue
from world import Susp, UserExc, asyncstdlib
import fam_cp_descr

RULE = (
    "concurrent cases: op sequences over {spawn i (attribute access, the await happens later), respawn t (await the same "
    "object again), sched t (one send on task t), cancel t (throw CancelledError at its current suspension), del i} on 1-2 "
    "instances, getter run r suspends susp[r] times and returns r or raises, lock type supplied / bare decorator (nullcontext) / "
    "explicit nullcontext; exhaustive families (all schedules of 2-3 awaiters; one del anywhere with a late arrival; one cancel "
    "anywhere; two instances) each followed by a round-robin drain, then seeded random sequences. sequential cases: histories over "
    "{await i, take i, await taken t, del i}, all of length <=N over 2 instances with failing getters, run on the real code, the "
    "model, the specification and (await/del histories) functools.cached_property. non-trivial = at least one getter run and one "
    "await finished; distinct by case content"
)
AMPLIFY = "search"   # on a source change: quick cases + the failing-input search (the thorough generator is minutes / GBs)
EXHAUSTIVE = {"quick": True, "thorough": True}
SCOPE = {
    "quick": "all schedules of length <=7 (2 tasks) / <=6 (3 tasks), susp 1-2, lock/no lock; one del or late spawn anywhere in "
             "length-5 schedules of 2 tasks; one cancel anywhere in length-5 schedules of 2-3 tasks; all sequential histories "
             "of length <=4 over 7 op kinds; all await/del histories of length <=6 (also replayed on functools.cached_property)",
    "thorough": "all schedules of length <=9 (2 tasks) / <=8 (3 tasks) / <=7 (4 tasks), susp 1-2; one or two dels/late spawns "
                "anywhere in length-7 schedules; one cancel anywhere in length-7 schedules of 2-4 tasks; all sequential "
                "histories of length <=5; all await/del histories of length <=8 (also replayed on functools.cached_property)",
}
ASSUMPTIONS = [
    "the supplied lock type provides mutual exclusion, its __aexit__ releases and does not suspend, a cancelled __aenter__ does "
    "not acquire (the harness lock; asyncio.Lock behaves so)",
    "the getter does not catch the cancellation and does not touch the attribute itself",
    "getter run r returns the distinct value r, so a returned value names the run that produced it",
    "task switches happen only at suspension points (one send = one Op.sched)",
]
TRUSTED = ["C12: non-data descriptor / instance __dict__ lookup order and `await` of a coroutine are Python semantics assumed "
           "by the model; the sequential specification is validated against functools.cached_property by sampling"]

AwaitableValue = asyncstdlib.functools.AwaitableValue
warnings.simplefilter("ignore", RuntimeWarning)


# ---------------------------------------------------------------------------------------------
# the instrumented world of one run


class _World:
    def __init__(self, case):
        self.susp = case["susp"]
        self.ok = case["ok"]
        self.runs = []        # [inst, status, placeholder object]
        self.locks = []       # HLock objects in creation order
        self.phs = []         # placeholder objects in order of first sighting (kept alive: ids stay unique)
        self.viol = []        # oracle hits: [tag, detail]
        world = self

        class HLock:
            """mutual-exclusion lock whose blocking is a visible suspension"""

            def __init__(self):
                self.held = False
                world.locks.append(self)

            def __bool__(self):      # falsy while idle, as a lock whose truth value is "is it held" would be
                return self.held

            async def __aenter__(self):
                while self.held:
                    await Susp(["lock", world.locks.index(self)])
                self.held = True
                return self

            async def __aexit__(self, et, ev, tb):
                self.held = False
                # a hand-off lock: after releasing it yields to the loop so that a waiter can run at once; whatever the
                # library does after `__aexit__` released the lock is no longer protected by it
                for j in range(case.get("handoff", 0)):
                    await Susp(["unlock", world.locks.index(self), j])
                return False

        async def getter(inst):
            r = len(world.runs)
            cur = inst.__dict__.get("data")
            # the placeholder on whose behalf the getter runs: the `self` of the library frame awaiting this coroutine
            # (falls back to the slot content if the library is restructured)
            owner = cur
            try:
                back = sys._getframe(1).f_locals.get("self")
                if back is not None and type(back).__name__ == "_FutureCachedPropertyValue":
                    owner = back
            except Exception:
                pass
            rec = [inst.iid, "running", owner]
            world.runs.append(rec)
            if isinstance(cur, AwaitableValue):
                world.viol.append(["getter-ran-while-cached", {"run": r, "cached": _v(cur.value)}])
            try:
                for j in range(world.susp[r] if r < len(world.susp) else 0):
                    await Susp(["g", r, j])
            except BaseException:
                rec[1] = "cancelled"
                raise
            if world.ok[r] if r < len(world.ok) else True:
                rec[1] = "returned"
                return r
            rec[1] = "raised"
            raise UserExc(r)

        mode = case["lock"]
        if mode == "lock":
            deco = asyncstdlib.cached_property(HLock)
        elif mode == "nullctx":
            deco = asyncstdlib.cached_property(asyncstdlib.nullcontext)
        else:
            deco = asyncstdlib.cached_property

        class C:
            def __init__(self, iid):
                self.iid = iid

            def __len__(self):       # instances are falsy (an empty container-like object)
                return 0

            def __setattr__(self, name, value):
                # a class that customises attribute assignment (a frozen record): the cache lives in the instance
                # `__dict__`, which the descriptor writes directly - it must never go through `setattr`
                if name == "data":
                    raise AttributeError("cannot assign to field 'data'")
                object.__setattr__(self, name, value)

            data = deco(getter)

        self.insts = [C(i) for i in range(case.get("ninst", 2))]

    def ph_id(self, obj):
        for k, o in enumerate(self.phs):
            if o is obj:
                return k
        self.phs.append(obj)
        return len(self.phs) - 1

    def canon(self, obj):
        if obj is None:
            return ["absent"]
        if isinstance(obj, AwaitableValue):
            return ["val", _v(obj.value)]
        return ["ph", self.ph_id(obj)]

    def slot(self, i):
        return self.insts[i].__dict__.get("data")

    def snap(self, op, out):
        """[op, outcome, slots, lock flags in creation order, '<instance><status>' per getter run]"""
        return [op, out, [self.canon(self.slot(i)) for i in range(len(self.insts))],
                "".join("1" if l.held else "0" for l in self.locks),
                "".join("%d%s" % (r[0], _ST[r[1]]) for r in self.runs)]


_ST = {"running": "r", "returned": "R", "raised": "F", "cancelled": "C"}


def _v(x):
    """values flowing out of awaits are the getter-run numbers; anything else is named by its type"""
    return x if isinstance(x, int) and not isinstance(x, bool) else "<%s>" % type(x).__name__


async def _waiter(h):
    return await h


class _Task:
    __slots__ = ("coro", "handle", "inst", "state", "result")

    def __init__(self, handle, inst):
        self.handle, self.inst = handle, inst
        self.coro = _waiter(handle)
        self.state = "new"
        self.result = None


def _good(w, inst, v):
    """v is the value of a getter run that returned, on this instance"""
    return isinstance(v, int) and 0 <= v < len(w.runs) and w.runs[v][1] == "returned" and w.runs[v][0] == inst


def _check_state(w, case, where, op=None):
    """oracles on the state after an operation"""
    prev = getattr(w, "_had_value", {})
    now = {}
    for i in range(len(w.insts)):
        cur = w.slot(i)
        now[i] = isinstance(cur, AwaitableValue)
        # "every await returns the cached value until it is deleted": a cached value may only disappear through del
        if prev.get(i) and not now[i] and not (op is not None and op[0] == "del" and op[1] == i):
            w.viol.append(["cached-value-lost-without-del", {"after_op": where, "op": list(op) if op else None, "inst": i}])
        if isinstance(cur, AwaitableValue) and not _good(w, i, cur.value):
            st = w.runs[cur.value][1] if isinstance(cur.value, int) and cur.value < len(w.runs) else None
            tag = {"raised": "failure-cached", "cancelled": "cancelled-run-cached", "running": "unfinished-run-cached"}.get(
                st, "foreign-value-cached")
            w.viol.append([tag, {"after_op": where, "inst": i, "value": _v(cur.value)}])
    w._had_value = now
    if case["lock"] == "lock":
        held = sum(1 for l in w.locks if l.held)
        running = sum(1 for r in w.runs if r[1] == "running")
        if held > running:
            w.viol.append(["lock-leaked", {"after_op": where, "held": held, "running": running}])
        elif running > held:
            w.viol.append(["getter-without-lock", {"after_op": where, "held": held, "running": running}])
        live = {}
        for k, r in enumerate(w.runs):
            if r[1] in ("running", "returned") and r[2] is not None and not isinstance(r[2], AwaitableValue):
                live.setdefault(id(r[2]), []).append(k)
        for ks in live.values():
            if len(ks) > 1:
                w.viol.append(["getter-ran-twice-under-lock", {"after_op": where, "runs": ks}])
                break


def _send(w, task, exc=None):
    """one send/throw on a task; returns the canonical outcome"""
    try:
        tok = task.coro.send(None) if exc is None else task.coro.throw(exc)
    except StopIteration as stop:
        task.state, task.result = "done", ["ok", _v(stop.value)]
        return ["ret", _v(stop.value)] if exc is None else ["cancel-returned", _v(stop.value)]
    except UserExc as e:
        task.state, task.result = "done", ["failed", e.eid]
        return ["raised", e.eid] if exc is None else ["cancel-raised", e.eid]
    except asyncio.CancelledError:
        task.state, task.result = "done", ["cancelled"]
        return ["cancelled"]
    except BaseException as e:  # noqa: B036
        task.state, task.result = "done", ["exc", type(e).__name__]
        return ["exc", type(e).__name__, str(e)[:80]]
    task.state = "susp"
    if exc is not None:
        return ["cancel-swallowed", tok]
    if tok[0] == "lock":
        return ["blocked"]
    if tok[0] == "g":
        return ["susp", tok[1]]
    if tok[0] == "unlock":
        return ["handoff"]           # suspended in the hand-off lock's __aexit__, after it released the lock
    return ["token", tok]


def _observe_conc(case):
    w = _World(case)
    tasks, trace = [], []
    nodel = not any(op[0] == "del" for op in case["ops"])

    def do_op(op):
        n = len(trace)
        tag, x = op
        if tag == "spawn":
            h = getattr(w.insts[x], "data")
            tasks.append(_Task(h, x))
            out = ["handle", w.canon(h)]
        elif tag == "respawn":
            if x < len(tasks):
                tasks.append(_Task(tasks[x].handle, tasks[x].inst))
                out = ["handle", w.canon(tasks[x].handle)]
            else:
                out = ["noop"]
        elif tag == "sched":
            if x >= len(tasks) or tasks[x].state == "done":
                out = ["noop"]
            else:
                t = tasks[x]
                first = t.state == "new"
                cur = w.slot(t.inst)
                nruns = len(w.runs)
                out = _send(w, t)
                if first and isinstance(t.handle, AwaitableValue):
                    if out != ["ret", _v(t.handle.value)] or len(w.runs) != nruns:
                        w.viol.append(["value-handle-not-served", {"op": n, "out": out}])
                elif first and isinstance(cur, AwaitableValue):
                    if out != ["ret", _v(cur.value)] or len(w.runs) != nruns:
                        w.viol.append(["cached-value-not-served", {"op": n, "cached": _v(cur.value), "out": out}])
                elif first and cur is t.handle and out != ["blocked"]:
                    if len(w.runs) != nruns + 1 or w.runs[nruns][0] != t.inst:
                        w.viol.append(["no-getter-run-when-uncached", {"op": n, "out": out}])
                if out[0] == "ret" and not _good(w, t.inst, out[1]):
                    w.viol.append(["returned-value-of-no-run", {"op": n, "task": x, "inst": t.inst, "out": out}])
                if out[0] in ("exc", "token"):
                    w.viol.append(["unexpected-" + out[0], {"op": n, "out": out}])
        elif tag == "cancel":
            if x >= len(tasks) or tasks[x].state == "done":
                out = ["noop"]
            else:
                out = _send(w, tasks[x], asyncio.CancelledError())
                if out != ["cancelled"]:
                    w.viol.append(["cancellation-not-propagated", {"op": n, "out": out}])
        elif tag == "del":
            try:
                delattr(w.insts[x], "data")
                out = ["deleted"]
            except AttributeError:
                out = ["attrerr"]
        else:
            raise ValueError(tag)
        _check_state(w, case, n, op)
        trace.append(w.snap(list(op), out))

    for op in case["ops"]:
        do_op(op)
    # round-robin drain: every unfinished task is scheduled once per round
    for _ in range(case.get("drain", 0)):
        todo = [k for k, t in enumerate(tasks) if t.state != "done"]
        if not todo:
            break
        for k in todo:
            if tasks[k].state != "done":
                do_op(["sched", k])
    # end-of-history oracles
    if case["lock"] == "lock" and nodel:
        for i in range(len(w.insts)):
            got = sorted({t.result[1] for t in tasks if t.inst == i and t.result and t.result[0] == "ok"})
            if len(got) > 1:
                w.viol.append(["awaiters-got-different-values", {"inst": i, "values": got}])
            succ = [k for k, r in enumerate(w.runs) if r[0] == i and r[1] == "returned"]
            if len(succ) > 1:
                w.viol.append(["getter-succeeded-twice-under-lock", {"inst": i, "runs": succ}])
    pending = [k for k, t in enumerate(tasks) if t.state != "done"]
    if case.get("drain") and pending:
        w.viol.append(["task-never-finished", {"tasks": pending, "locks": [l.held for l in w.locks]}])
    for k, t in enumerate(tasks):
        try:
            t.coro.close()      # GeneratorExit at the task's suspension point: it must simply unwind
        except BaseException as exc:  # noqa: B036
            w.viol.append(["closing-an-abandoned-awaiter-raised", {"task": k, "exc": type(exc).__name__}])
    seen = set()
    viol = [v for v in w.viol if not (v[0] in seen or seen.add(v[0]))]
    return {"trace": trace, "viol": viol, "pending": pending,
            "results": [t.result for t in tasks], "nruns": len(w.runs)}


# ---------------------------------------------------------------------------------------------
# sequential histories: real code, and functools.cached_property as the reference


def _observe_seq(case):
    w = _World(case)
    outs, handles = [], []

    def run_await(h):
        coro = _waiter(h)
        while True:
            try:
                tok = coro.send(None)
            except StopIteration as stop:
                return ["ret", _v(stop.value)]
            except UserExc as e:
                return ["raised", e.eid]
            except BaseException as e:  # noqa: B036
                w.viol.append(["unexpected-exc", {"exc": type(e).__name__}])
                return ["exc", type(e).__name__]
            if tok[0] == "lock":
                # nobody else is running: a held lock can never be released
                w.viol.append(["lock-leaked", {"sequential": True, "token": tok}])
                coro.close()
                return ["deadlock"]

    for op in case["ops"]:
        tag, x = op
        if tag == "await":
            handles.append(None)
            outs.append(run_await(getattr(w.insts[x], "data")))
        elif tag == "take":
            handles.append(getattr(w.insts[x], "data"))
            outs.append(["taken"])
        elif tag == "awaitTaken":
            if x < len(handles) and handles[x] is not None:
                h, handles[x] = handles[x], None
                outs.append(run_await(h))
            else:
                outs.append(["noop"])
        elif tag == "del":
            try:
                delattr(w.insts[x], "data")
                outs.append(["deleted"])
            except AttributeError:
                outs.append(["attrerr"])
        _check_state(w, case, len(outs) - 1, op)
    std = None
    if all(op[0] in ("await", "del") for op in case["ops"]):
        std = _functools_history(case)
    return {"impl": outs, "std": std, "viol": w.viol, "nruns": len(w.runs)}


def _functools_history(case):
    runs = []

    class S:
        @functools.cached_property
        def data(self):
            r = len(runs)
            runs.append(r)
            if case["ok"][r] if r < len(case["ok"]) else True:
                return r
            raise UserExc(r)

    insts = [S() for _ in range(case.get("ninst", 2))]
    outs = []
    for tag, x in case["ops"]:
        if tag == "await":
            try:
                outs.append(["ret", insts[x].data])
            except UserExc as e:
                outs.append(["raised", e.eid])
        else:
            try:
                del insts[x].data
            except AttributeError:
                pass
    return outs


def observe(case):
    if case["kind"] == "descr":
        return fam_cp_descr.observe(case)
    if case["kind"] == "seq":
        return _observe_seq(case)
    return _observe_conc(case)


def model_request(case):
    if case["kind"] == "descr":
        return None     # oracle only: the per-instance slot is a primitive of the Lean machine
    if case.get("handoff"):
        # a lock whose __aexit__ suspends AFTER releasing: Machines/CachedPropertyHandoff.lean (two-phase release)
        return {"m": "cachedpropertyhandoff", "mode": case["kind"], "lock": case["lock"] == "lock", "susp": case["susp"],
                "ok": case["ok"], "ninst": case.get("ninst", 2), "ops": case["ops"], "drain": case.get("drain", 0),
                "handoff": case["handoff"]}
    return {"m": "cachedprop", "mode": case["kind"], "lock": case["lock"] == "lock", "susp": case["susp"],
            "ok": case["ok"], "ninst": case.get("ninst", 2), "ops": case["ops"], "drain": case.get("drain", 0)}


# ---------------------------------------------------------------------------------------------
# judging


def _rename(trace, lockmode):
    """placeholder ids by order of first appearance (handle first, then slots), on either side"""
    names = {}

    def ren(x):
        if x[0] == "ph":
            return ["ph", names.setdefault(x[1], len(names))]
        return x

    out = []
    for op, o, slots, locks, runs in trace:
        if o[0] == "handle":
            o = ["handle", ren(o[1])]
        out.append([op, o, [ren(s) for s in slots], locks if lockmode else "", runs])
    return out


def judge(case, obs, model):
    issues = []
    for tag, detail in obs["viol"]:
        issues.append(Issue("oracle", detail, tag))
    if case["kind"] == "descr":
        return issues
    if case["kind"] == "seq":
        if obs["std"] is not None:
            mine = [o for o, op in zip(obs["impl"], case["ops"]) if op[0] == "await"]
            if mine != obs["std"]:
                issues.append(Issue("oracle", {"impl": mine, "functools": obs["std"]}, "history-differs-from-functools"))
        if model is not None:
            if "error" in model:
                issues.append(Issue("A", model))
            else:
                if model["impl"] != obs["impl"]:
                    issues.append(Issue("A", {"impl": obs["impl"], "model": model["impl"]}))
                if model["impl"] != model["spec"]:
                    issues.append(Issue("MS", model))
                if obs["std"] is not None:
                    spec = [o for o, op in zip(model["spec"], case["ops"]) if op[0] == "await"]
                    if spec != obs["std"]:
                        issues.append(Issue("B", {"functools": obs["std"], "spec": spec}))
        return issues
    if model is not None:
        if "error" in model:
            issues.append(Issue("A", model))
        else:
            lockmode = case["lock"] == "lock"
            trace = obs["trace"]
            if case.get("handoff"):
                # a cancellation that lands while the task is suspended in the lock's __aexit__ is that suspension's business
                trace = [[st[0], ["handoff"] if st[1][0] == "cancel-swallowed" and st[1][1][:1] == ["unlock"] else st[1]] + list(st[2:])
                         for st in trace]
            real, mod = _rename(trace, lockmode), _rename(model["trace"], lockmode)
            for n, (a, b) in enumerate(zip(real, mod)):
                if a != b:
                    issues.append(Issue("A", {"first_diff_at_op": n, "impl": a, "model": b}))
                    break
            else:
                if len(real) != len(mod):
                    issues.append(Issue("A", {"trace_lengths": [len(real), len(mod)]}))
            if any(st[1] == ["stuck"] for st in model["trace"]):
                issues.append(Issue("MS", {"stuck": True}))
    return issues


def features(case, obs):
    f = [case["kind"], "lock=" + str(case["lock"])]
    if case["kind"] == "descr":
        return f + ["family=descr", "scenario=" + case["scenario"]]
    if case["kind"] == "seq":
        f.append("ops=%d" % len(case["ops"]))
        f += sorted({"op=" + op[0] for op in case["ops"]})
        f += sorted({"out=" + o[0] for o in obs["impl"]})
        if obs["std"] is not None:
            f.append("functools-compared")
        return f
    f.append("family=" + case.get("family", "?"))
    f += sorted({"op=" + op[0] for op in case["ops"]})
    f += sorted({"out=" + st[1][0] for st in obs["trace"]})
    f.append("runs=%d" % min(obs["nruns"], 4))
    f.append("tasks=%d" % min(len(obs["results"]), 5))
    if obs["pending"]:
        f.append("pending-at-end")
    if any(st[4].count("r") > 1 for st in obs["trace"]):
        f.append("concurrent-getters")
    if any(st[1] == ["blocked"] for st in obs["trace"]):
        f.append("waited-for-lock")
    return f


def nontrivial(case, obs):
    if case["kind"] == "descr":
        return True
    if case["kind"] == "seq":
        return obs["nruns"] > 0 and any(o[0] in ("ret", "raised") for o in obs["impl"])
    return obs["nruns"] > 0 and any(r is not None for r in obs["results"])


# ---------------------------------------------------------------------------------------------
# case generation


def _conc(family, lock, susp, ok, ops, ntasks, ninst=1, drain=True):
    maxs = max(susp) if susp else 0
    return {"kind": "conc", "family": family, "lock": lock, "susp": susp, "ok": ok, "ninst": ninst, "ops": list(ops),
            "drain": (maxs + 2) * (ntasks + 1) if drain else 0}


CFGS = [  # (susp per run, ok per run)
    ([1, 1, 1, 1, 1, 1], [True] * 6),
    ([2, 1, 2, 1, 2, 1], [True] * 6),
    ([1, 2, 1, 1, 1, 1], [False, True, True, True, True, True]),
    ([1, 1, 1, 1, 1, 1], [False, False, True, True, True, True]),
    ([0, 1, 0, 1, 0, 1], [True] * 6),
]


def _seqs(alphabet, length):
    return itertools.product(alphabet, repeat=length)


def _family_schedules(n, L, modes, cfgs):
    for lock in modes:
        for susp, ok in cfgs:
            for seq in _seqs(range(n), L):
                ops = [["spawn", 0]] * n + [["sched", t] for t in seq]
                yield _conc("schedules", lock, susp, ok, ops, n)


def _family_insert(n, L, modes, cfgs, extras, family, ninst=1, count=1):
    """all schedules of length L over n tasks with `count` extra ops from `extras` inserted anywhere"""
    for lock in modes:
        for susp, ok in cfgs:
            for seq in _seqs(range(n), L):
                base = [["sched", t] for t in seq]
                for poss in itertools.combinations_with_replacement(range(L + 1), count):
                    for ex in itertools.product(extras, repeat=count):
                        ops = list(base)
                        for pos, e in sorted(zip(poss, ex), key=lambda z: -z[0]):
                            ops.insert(pos, e)
                        nt = n + sum(1 for e in ex if e[0] in ("spawn", "respawn"))
                        head = [["spawn", i % ninst] for i in range(n)]
                        # late arrivals must be schedulable: the drain covers them
                        yield _conc(family, lock, susp, ok, head + ops, nt, ninst)


def _seq_cases(L, modes):
    alphabet = [["await", 0], ["await", 1], ["take", 0], ["awaitTaken", 0], ["awaitTaken", 1], ["del", 0], ["del", 1]]
    oks = [[True] * 8, [False, True, False, True, True, True, True, True], [True, False, True, True, True, True, True, True]]
    n = 0
    for ln in range(1, L + 1):
        for ops in _seqs(alphabet, ln):
            n += 1
            yield {"kind": "seq", "lock": modes[n % len(modes)], "susp": [[0, 1, 2, 0, 1, 2, 0, 1], [2] * 8][n % 2],
                   "ok": oks[n % 3], "ninst": 2, "ops": [list(o) for o in ops]}


def _functools_cases(L):
    """await/del-only histories: the ones functools.cached_property can replay"""
    alphabet = [["await", 0], ["await", 1], ["del", 0], ["del", 1]]
    oks = [[True] * 10, [False, True, False, True, True, True, True, True, True, True],
           [True, False, False, True, True, False, True, True, True, True]]
    n = 0
    for ln in range(1, L + 1):
        for ops in _seqs(alphabet, ln):
            if not any(o[0] == "await" for o in ops):
                continue
            n += 1
            yield {"kind": "seq", "lock": ["lock", "none", "nullctx"][n % 3], "susp": [[0, 1, 2, 0, 1, 2, 0, 1], [1] * 8][n % 2],
                   "ok": oks[n % 3], "ninst": 2, "ops": [list(o) for o in ops]}


def _random_conc(rng):
    lock = rng.choice(["lock", "lock", "none", "nullctx"])
    ninst = rng.choice([1, 1, 2])
    nruns = 8
    susp = [rng.choice([0, 1, 1, 2, 3]) for _ in range(nruns)]
    ok = [rng.random() < 0.75 for _ in range(nruns)]
    ops, nt = [], 0
    for _ in range(rng.randint(4, 30)):
        r = rng.random()
        if nt == 0 or (r < 0.15 and nt < 6):
            ops.append(["spawn", rng.randrange(ninst)])
            nt += 1
        elif r < 0.19 and nt < 6:
            ops.append(["respawn", rng.randrange(nt)])
            nt += 1
        elif r < 0.27:
            ops.append(["del", rng.randrange(ninst)])
        elif r < 0.33:
            ops.append(["cancel", rng.randrange(nt)])
        else:
            ops.append(["sched", rng.randrange(nt)])
    return _conc("random", lock, susp, ok, ops, nt, ninst, drain=rng.random() < 0.7)


def _random_seq(rng):
    ops, nt = [], 0
    for _ in range(rng.randint(3, 14)):
        r = rng.random()
        if r < 0.45:
            ops.append(["await", rng.randrange(2)])
            nt += 1
        elif r < 0.6:
            ops.append(["take", rng.randrange(2)])
            nt += 1
        elif r < 0.75 and nt:
            ops.append(["awaitTaken", rng.randrange(nt)])
        else:
            ops.append(["del", rng.randrange(2)])
    return {"kind": "seq", "lock": rng.choice(["lock", "none", "nullctx"]),
            "susp": [rng.choice([0, 1, 2, 3]) for _ in range(16)], "ok": [rng.random() < 0.7 for _ in range(16)],
            "ninst": 2, "ops": ops}


def cases(tier, rng):
    quick = tier == "quick"
    modes = ["lock", "none"]
    yield from fam_cp_descr.cases()
    yield from _seq_cases(4 if quick else 5, ["lock", "none", "nullctx"])
    yield from _functools_cases(6 if quick else 8)
    # every schedule of n awaiters
    yield from _family_schedules(2, 7 if quick else 9, modes, CFGS[:4])
    yield from _family_schedules(3, 6 if quick else 8, modes, CFGS[:3] if quick else CFGS[:4])
    if not quick:
        yield from _family_schedules(4, 7, modes, CFGS[:2])
    # a deleting task / a late arrival (access during the computation, awaited later) / awaiting the same object again
    extras = [["del", 0], ["spawn", 0], ["respawn", 0]]
    yield from _family_insert(2, 5 if quick else 6, modes, CFGS[:3], extras, "del-or-arrival", count=1)
    yield from _family_insert(2, 4 if quick else 5, modes + ["nullctx"], CFGS[:2] + CFGS[4:5], extras, "del-and-arrival", count=2)
    if not quick:
        yield from _family_insert(3, 5, modes, CFGS[:2], extras, "del-or-arrival", count=1)
        yield from _family_insert(2, 4, modes, CFGS[:2], extras, "del-and-arrival", count=3)
    # one task cancelled at any point
    for n, L in ((2, 5), (3, 5)) if quick else ((2, 7), (3, 6), (4, 5)):
        yield from _family_insert(n, L, modes, CFGS[:3] if n < 4 else CFGS[:2],
                                  [["cancel", t] for t in range(n)], "cancel", count=1)
    yield from _family_insert(2, 4 if quick else 5, ["lock"], CFGS[:2], [["cancel", 0], ["cancel", 1], ["del", 0], ["spawn", 0]],
                              "cancel-and-del", count=2)
    # two instances
    yield from _family_insert(3 if quick else 4, 5 if quick else 6, modes, CFGS[:2], [["del", 0], ["del", 1]], "two-instances",
                              ninst=2, count=1)
    for k in range(4000 if quick else 150000):
        c = _random_conc(rng)
        yield c
        if k % 5 == 0 and c["lock"] == "lock":
            # the same schedule under a hand-off lock (its __aexit__ suspends after releasing): oracle-only; no
            # cancellations (a throw at the unlock suspension is the lock's own business) and a long drain
            yield dict(c, handoff=1 + k % 2, ops=[op for op in c["ops"] if op[0] != "cancel"], drain=max(c.get("drain", 0), 12))
    for _ in range(1500 if quick else 40000):
        yield _random_seq(rng)


def search_cases(broken_cases, rng):
    """neighbours of disagreeing cases + a random sweep, judged by the direct oracles only"""
    for case in broken_cases:
        for lock in ("lock", "none", "nullctx"):
            yield dict(case, lock=lock)
        for cut in range(1, len(case["ops"])):
            yield dict(case, ops=case["ops"][:cut], drain=0)
    for _ in range(6000):
        yield _random_conc(rng)
    for _ in range(2000):
        yield _random_seq(rng)
