"""C19 — asynctools adapters (any_iter, await_each, apply, sync) normalise every async shape to the
same plain result.

Everything is hand-driven (no event loop): user awaitables suspend with integer tokens that reach
`reply`, which records them in the same log as the instrumented objects, so the log is the total
order of: pulls on the source, start / suspensions / completion of every user awaitable, user
function calls.  One consumer operation (`__anext__()` or `aclose()`, driven to completion) is one
step; its slice of the log is compared with the Lean machine's events for that step.
"""
import functools
import itertools
import warnings

from framework import Issue
import fam_adapters_fail
from world import Item, Susp, UserExc, drive, exc_name, asyncstdlib

warnings.filterwarnings("ignore", category=RuntimeWarning, message="coroutine .* was never awaited")

RULE = (
    "any_iter: item lists of length 0..6 x {plain, awaitable(coroutine | __await__ object)} outer x container "
    "{list, tuple, __getitem__ sequence, iterator, generator | async generator, class-based async iterator, async iterable} "
    "x item forms {all plain, all awaitable, every plain/awaitable mix for short lists} x 0..2 suspension tokens per awaitable "
    "and per async pull x consumer {k requests, k in 0..n+2} x {abandon, aclose, aclose then request}; single failing "
    "awaitable at every position, failing outer awaitable; "
    "await_each: awaitable lists 0..6 over the sync containers, same consumers, failing / non-awaitable elements, async container; "
    "apply: 0..6 awaitables, every positional/keyword split, failing argument at every position, function returning / raising; "
    "sync: def, lambda, partial, callable objects (sync / returning awaitable / async __call__), async def, bound async method, "
    "partial of async def, non-callables x 0..2 positional x 0..2 keyword arguments x tokens x value/exception; "
    "then seeded random cases beyond those bounds. non-trivial = something was awaited, delivered or called; distinct by case content"
)
EXHAUSTIVE = {"quick": True, "thorough": True}
SCOPE = {
    "quick": "lengths 0..6 (uniform forms) and all plain/awaitable mixes up to length 3, 2 outers, 3 container classes "
             "(every variant up to length 4, cycled beyond), all k in 0..n+2 x 3 endings; apply: all splits for n<=6, "
             "fault positions for n<=4; sync: full flavour grid",
    "thorough": "lengths 0..6, all plain/awaitable mixes up to length 5, every container variant, all k in 0..n+2 x 3 endings; "
                "apply: all splits and all fault positions for n<=6; sync: full flavour grid",
}
ASSUMPTIONS = [
    "sources do not fail on a pull (faults in sources are C06's subject); awaitables may fail",
    "an awaitable's result does not depend on what the event loop sends back at its suspensions",
    "the consumer drives every request to completion (no cancellation inside a suspended awaitable)",
    "awaitable forms: coroutine objects and objects with __await__ (generator-based coroutines are not Awaitable instances)",
    "values are compared by object identity (Item ids); user exceptions by injected id, library ones by type name",
]
TRUSTED = ["C19: harness sources / awaitables of harness/props/c19.py are the twins of Machines/Adapters.lean `Src` / `Aw`"]

SYNC_KINDS = ["list", "tuple", "seq", "iter", "gen"]
ASYNC_KINDS = ["agen", "aobj", "aiterable"]
MODEL_KIND = {"list": "list", "tuple": "list", "seq": "iter", "iter": "iter", "gen": "iter",
              "agen": "aiter", "aobj": "aiter", "aiterable": "aiter"}
KW_NAMES = ["self", "func", "function", "args", "kwargs", "awaitable", "coro", "k7"]   # names a wrapper may use itself


# ---------------------------------------------------------------------------------------------
# instrumented user objects


class Env:
    """one run: a log, and the coroutine objects created (closed at the end: no 'never awaited')"""

    def __init__(self):
        self.log = []
        self.coros = []

    def reply(self, i, tok):
        self.log.append(["susp", tok])
        return ("send", None)

    def finish(self):
        for c in self.coros:
            try:
                c.close()
            except BaseException:  # noqa: B036
                pass


class AwObj:
    """awaitable object: `__await__` is a generator that yields its tokens"""

    def __init__(self, env, aid, toks, result, fail):
        self.env, self.aid, self.toks, self.result, self.fail = env, aid, toks, result, fail

    def __await__(self):
        self.env.log.append(["start", self.aid])
        for t in self.toks:
            yield t
        self.env.log.append(["fin", self.aid])
        if self.fail is not None:
            raise UserExc(self.fail)
        return self.result


async def _aw_coro(env, aid, toks, result, fail):
    env.log.append(["start", aid])
    for t in toks:
        await Susp(t)
    env.log.append(["fin", aid])
    if fail is not None:
        raise UserExc(fail)
    return result


def make_aw(env, form, aid, toks, result, fail):
    if form == "obj":
        return AwObj(env, aid, toks, result, fail)
    c = _aw_coro(env, aid, toks, result, fail)
    env.coros.append(c)
    return c


def aw_toks(i, n):
    return [1000 * (i + 1) + j for j in range(n)]


def pull_toks(p, n):
    return [100000 + 100 * p + j for j in range(n)]


def outer_toks(n):
    return [900000 + j for j in range(n)]


class SyncIter:
    def __init__(self, env, objs):
        self.env, self.objs, self.i = env, objs, 0

    def __iter__(self):
        return self

    def __next__(self):
        self.env.log.append(["pull"])
        if self.i >= len(self.objs):
            raise StopIteration
        self.i += 1
        return self.objs[self.i - 1]


class Seq:
    """__getitem__-only sequence (legacy iteration protocol)"""

    def __init__(self, env, objs):
        self.env, self.objs = env, objs

    def __getitem__(self, i):
        self.env.log.append(["pull"])
        return self.objs[i]   # IndexError ends the iteration


def _sync_gen(env, objs):
    for o in objs:
        env.log.append(["pull"])
        yield o
    env.log.append(["pull"])


class AObj:
    def __init__(self, env, objs, ptoks):
        self.env, self.objs, self.ptoks, self.i = env, objs, ptoks, 0

    def __aiter__(self):
        return self

    async def __anext__(self):
        self.env.log.append(["pull"])
        for t in pull_toks(self.i, self.ptoks[self.i] if self.i < len(self.ptoks) else 0):
            await Susp(t)
        if self.i >= len(self.objs):
            self.i += 1
            raise StopAsyncIteration
        self.i += 1
        return self.objs[self.i - 1]


class AIterable:
    def __init__(self, env, objs, ptoks):
        self.args = (env, objs, ptoks)

    def __aiter__(self):
        return AObj(*self.args)


async def _agen(env, objs, ptoks):
    for i, o in enumerate(objs):
        env.log.append(["pull"])
        for t in pull_toks(i, ptoks[i]):
            await Susp(t)
        yield o
    env.log.append(["pull"])
    for t in pull_toks(len(objs), ptoks[len(objs)]):
        await Susp(t)


def make_container(env, kind, objs, ptoks):
    if kind == "list":
        return list(objs)
    if kind == "tuple":
        return tuple(objs)
    if kind == "seq":
        return Seq(env, objs)
    if kind == "iter":
        return SyncIter(env, objs)
    if kind == "gen":
        return _sync_gen(env, objs)
    if kind == "agen":
        return _agen(env, objs, ptoks)
    if kind == "aobj":
        return AObj(env, objs, ptoks)
    if kind == "aiterable":
        return AIterable(env, objs, ptoks)
    raise ValueError(kind)


def value_id(i):
    return 100 + i


def _odd_plain(kind, vid):
    """plain (non-awaitable) items that a careless awaitability probe (hasattr instead of the type-level protocol
    check) mistakes for awaitables: `await x` looks `__await__` up on type(x), as collections.abc.Awaitable does"""
    if kind == 1:      # a class whose *instances* are awaitable; the class object itself is a plain value
        return type("AwaitableClass", (), {"__await__": lambda self: iter(()), "vid": vid})
    if kind == 2:      # catch-all attribute access (proxies, lenient records)

        class Bag:
            def __init__(self):
                self.vid = vid

            def __getattr__(self, name):
                return lambda *a, **k: None
        return Bag()

    class Rec:         # an instance attribute that merely happens to be called __await__
        pass
    r = Rec()
    r.vid = vid
    r.__await__ = lambda: iter(())
    return r


def make_items(env, specs):
    """the objects inside the container: plain Items or awaitables producing them"""
    objs = []
    for i, s in enumerate(specs):
        val = Item(value_id(i), value_id(i))
        if s["form"] == "plain" and s.get("odd"):
            objs.append(_odd_plain(s["odd"], value_id(i)))
        elif s["form"] == "plain":
            objs.append(val)
        else:
            objs.append(make_aw(env, s["form"], i, aw_toks(i, s["toks"]), val, s.get("fail")))
    return objs


def _ptoks(case):
    n = len(case["items"])
    pt = list(case.get("ptoks") or [])
    return (pt + [0] * (n + 1))[: n + 1]


def make_arg(env, case):
    """the argument handed to any_iter / await_each, built from the case"""
    objs = make_items(env, case["items"])
    cont = make_container(env, case["kind"], objs, _ptoks(case))
    outer = case.get("outer")
    if outer is None:
        return cont
    return make_aw(env, outer["form"], 9000, outer_toks(outer["toks"]), cont, outer.get("fail"))


def _val(v):
    if isinstance(v, Item):
        return v.id
    vid = getattr(v, "__dict__", {}).get("vid")
    return vid if isinstance(vid, int) else ["?", type(v).__name__]


def run_gen(env, gen, ops):
    """drive an async generator through the consumer operations; one step per operation"""
    steps = []
    for op in ops:
        mark = len(env.log)
        if op == "n":
            res = drive(gen.__anext__(), env.reply)
            if res.exc is None:
                out = ["item", _val(res.value)]
            elif isinstance(res.exc, StopAsyncIteration):
                out = ["stop"]
            else:
                out = ["raised", exc_name(res.exc)]
        else:
            res = drive(gen.aclose(), env.reply)
            out = ["closed"] if res.exc is None else ["raised", exc_name(res.exc)]
        steps.append([env.log[mark:], out])
    return steps


# ---------------------------------------------------------------------------------------------
# references: what a user writes by hand when the shape is known statically


async def _ref_any(case, arg):
    cont = (await arg) if case.get("outer") is not None else arg
    forms = [s["form"] for s in case["items"]]
    i = 0
    if case["kind"] in ASYNC_KINDS:
        async for item in cont:
            yield (await item) if forms[i] != "plain" else item
            i += 1
    else:
        for item in cont:
            yield (await item) if forms[i] != "plain" else item
            i += 1


async def _ref_each(arg):
    it = iter(arg)
    while True:
        try:
            aw = next(it)
        except StopIteration:
            return
        value = await aw
        yield value


async def _ref_apply(f, args, kwargs):
    vals = []
    for a in args:
        vals.append(await a)
    kv = {}
    for k in kwargs:
        kv[k] = await kwargs[k]
    return f(*vals, **kv)


# ---------------------------------------------------------------------------------------------
# observe


def _obs_gen(case):
    out = {}
    for side in ("impl", "ref"):
        env = Env()
        arg = make_arg(env, case)
        if case["t"] == "any_iter":
            gen = asyncstdlib.any_iter(arg) if side == "impl" else _ref_any(case, arg)
        else:
            gen = asyncstdlib.await_each(arg) if side == "impl" else _ref_each(arg)
        out[side] = run_gen(env, gen, case["ops"])
        if case["t"] == "await_each":
            import inspect
            # what is left of the awaitables nobody asked for: a coroutine must still be startable by its owner
            out[side + "_left"] = [inspect.getcoroutinestate(c) for c in env.coros]
        env.finish()
    return out


def _call_event(fid, args, kwargs):
    return ["call", fid, [_val(a) for a in args], [[KW_NAMES.index(k), _val(v)] for k, v in kwargs.items()]]


def _res(driven):
    if driven.exc is not None:
        return ["err", exc_name(driven.exc)]
    return ["ok", _val(driven.value)]


def _obs_apply(case):
    out = {}
    n, p = len(case["items"]), case["split"]
    for side in ("impl", "ref"):
        env = Env()

        def f(*a, _env=env, **k):
            _env.log.append(_call_event(5, a, k))
            if case["f"].get("fail") is not None:
                raise UserExc(case["f"]["fail"])
            return Item(500, 500)

        objs = make_items(env, case["items"])
        args = objs[:p]
        kwargs = {KW_NAMES[i - p]: objs[i] for i in range(p, n)}
        if side == "impl":
            res = drive(asyncstdlib.apply(f, *args, **kwargs), env.reply)
        else:
            res = drive(_ref_apply(f, args, kwargs), env.reply)
        out[side] = [env.log, _res(res)]
        env.finish()
    return out


SYNC_VARIANTS = {
    # variant -> model flavour
    "def": "syncPlain", "lambda": "syncPlain", "partial_sync": "syncPlain", "obj_sync": "syncPlain",
    "bound_sync": "syncPlain",
    "lambda_coro": "syncAw", "def_awobj": "syncAw", "obj_sync_aw": "syncAw",
    "obj_async": "objAsync",
    "async_def": "asyncDef", "bound_async": "asyncDef",
    "partial_async": "partialAsync",
    "int": "notCallable", "str": "notCallable", "none": "notCallable",
}
RETURNS_AW = {"syncAw", "objAsync", "asyncDef", "partialAsync"}


def make_fn(env, case):
    """the object handed to sync(); `extra` positional prefix is bound by partial variants"""
    fid, toks, fail, variant = 1, aw_toks(0, case["toks"]), case.get("fail"), case["variant"]
    result = Item(700, 700)

    def body(a, k):
        env.log.append(_call_event(fid, a, k))
        if fail is not None:
            raise UserExc(fail)
        return result

    async def abody(a, k):
        env.log.append(_call_event(fid, a, k))
        for t in toks:
            await Susp(t)
        if fail is not None:
            raise UserExc(fail)
        return result

    class Quiet:
        """awaitable whose start/fin are not logged (the call event stands for the body)"""

        def __await__(self):
            for t in toks:
                yield t
            if fail is not None:
                raise UserExc(fail)
            return result

    def def_(*a, **k):
        return body(a, k)

    async def async_def(*a, **k):
        return await abody(a, k)

    def coro_of(a, k):
        c = abody(a, k)
        env.coros.append(c)
        return c

    class ObjSync:
        def __call__(self, /, *a, **k):
            return body(a, k)

        def meth(self, /, *a, **k):
            return body(a, k)

    class ObjSyncAw:
        def __call__(self, /, *a, **k):
            return coro_of(a, k)

    class ObjAsync:
        async def __call__(self, /, *a, **k):
            return await abody(a, k)

        async def meth(self, /, *a, **k):
            return await abody(a, k)

    def def_awobj(*a, **k):
        env.log.append(_call_event(fid, a, k))
        return Quiet()

    if variant == "def":
        return def_
    if variant == "lambda":
        return lambda *a, **k: body(a, k)
    if variant == "partial_sync":
        return functools.partial(def_)
    if variant == "obj_sync":
        return ObjSync()
    if variant == "bound_sync":
        return ObjSync().meth
    if variant == "lambda_coro":
        return lambda *a, **k: coro_of(a, k)
    if variant == "def_awobj":
        return def_awobj
    if variant == "obj_sync_aw":
        return ObjSyncAw()
    if variant == "obj_async":
        return ObjAsync()
    if variant == "async_def":
        return async_def
    if variant == "bound_async":
        return ObjAsync().meth
    if variant == "partial_async":
        return functools.partial(async_def)
    return {"int": 3, "str": "string", "none": None}[variant]


def _obs_sync(case):
    out = {}
    flavour = SYNC_VARIANTS[case["variant"]]
    args = [Item(200 + i, 200 + i) for i in range(case["nargs"])]
    kwargs = {KW_NAMES[i]: Item(300 + i, 300 + i) for i in range(case["nkw"])}
    # real sync()
    env = Env()
    f = make_fn(env, case)
    try:
        w = asyncstdlib.sync(f)
    except BaseException as exc:  # noqa: B036
        out["synced"] = "typeError" if isinstance(exc, TypeError) else "error:" + type(exc).__name__
        out["impl"] = [env.log, ["err", exc_name(exc)]]
    else:
        out["synced"] = "same" if w is f else "wrapped"
        try:
            coro = w(*args, **kwargs)
        except BaseException as exc:  # noqa: B036
            out["impl"] = [env.log, ["err", exc_name(exc)]]
            out["call_raised"] = True
        else:
            calls_before_await = len(env.log)
            out["awaitable"] = hasattr(coro, "__await__")
            res = drive(coro, env.reply) if hasattr(coro, "send") else drive(_await(coro), env.reply)
            out["impl"] = [env.log, _res(res)]
            out["ran_before_await"] = calls_before_await
    env.finish()
    # native use of the callable
    if flavour != "notCallable":
        env = Env()
        f = make_fn(env, case)
        if flavour in RETURNS_AW:
            res = drive(_await_call(f, args, kwargs), env.reply)
        else:
            res = drive(_plain_call(f, args, kwargs), env.reply)
        out["ref"] = [env.log, _res(res)]
        env.finish()
    else:
        out["ref"] = None
    return out


async def _await(x):
    return await x


async def _await_call(f, args, kwargs):
    return await f(*args, **kwargs)


async def _plain_call(f, args, kwargs):
    return f(*args, **kwargs)


def _obs_misc(case):
    """small oracle-only situations: `sync` of an async GENERATOR function (calling it gives a plain, non-awaitable object,
    so the wrapper must hand that object out when awaited) and `apply` with the SAME re-awaitable object for two parameters
    (each parameter is awaited: two awaits, two possibly different results)"""
    if case["what"] == "sync-asyncgen":
        async def agen(n):
            yield n
            yield n + 1

        class Holder:
            async def method(self, n):
                yield n
        target = Holder().method if case["bound"] else agen
        try:
            w = asyncstdlib.sync(target)
            r = drive(w(5))
        except BaseException as exc:  # noqa: B036
            return {"got": ["raised", exc_name(exc)], "want": ["agen", [5, 6][: 1 if case["bound"] else 2]]}
        if r.exc is not None:
            return {"got": ["raised", exc_name(r.exc)], "want": ["agen", [5, 6][: 1 if case["bound"] else 2]]}
        obj = r.value
        items = []
        if type(obj).__name__ == "async_generator":
            while True:
                rr = drive(obj.__anext__())
                if rr.exc is not None:
                    break
                items.append(rr.value)
        return {"got": [type(obj).__name__.replace("async_generator", "agen"), items], "want": ["agen", [5, 6][: 1 if case["bound"] else 2]]}
    # apply with one re-awaitable object used for two parameters
    log = []

    class Recv:
        def __init__(self):
            self.n = 0

        def __await__(self):
            self.n += 1
            log.append(["await", self.n])
            yield from Susp(["u", "recv", self.n]).__await__()
            return 10 if self.n == 1 else 3
    recv = Recv()

    def sub(a, b=None, **kw):
        return [a, b if b is not None else kw.get("y")]
    if case["kw"]:
        r = drive(asyncstdlib.apply(sub, recv, y=recv))
    else:
        r = drive(asyncstdlib.apply(sub, recv, recv))
    return {"got": ["raised", exc_name(r.exc)] if r.exc is not None else ["ret", r.value, log], "want": ["ret", [10, 3], [["await", 1], ["await", 2]]]}


def _obs_syncseq(case):
    """one `sync(f)` wrapper called several times; the n-th call of `f` answers in style styles[n]:
    "p" plain value, "a" awaitable of the value, "P"/"A" the same but failing"""
    out = {}
    for side in ("impl", "ref"):
        env = Env()
        state = {"n": 0}

        async def aw(n, fail, env=env):
            for t in aw_toks(n, case["toks"]):
                await Susp(t)
            if fail:
                raise UserExc(60 + n)
            return Item(700 + n, 700 + n)

        def f(*a, state=state, env=env, aw=aw):
            n = state["n"]
            state["n"] += 1
            env.log.append(["call", n])
            st = case["styles"][n]
            if st == "p":
                return Item(700 + n, 700 + n)
            if st == "P":
                raise UserExc(60 + n)
            c = aw(n, st == "A")
            env.coros.append(c)
            return c
        if case.get("obj"):
            class F:
                def __call__(self, *a):
                    return f(*a)
            target = F()
        else:
            target = f
        w = asyncstdlib.sync(target) if side == "impl" else None
        res = []
        for n, st in enumerate(case["styles"]):
            if side == "impl":
                try:
                    r = drive(w(n), env.reply)
                except BaseException as exc:  # noqa: B036
                    res.append(["call-raised", exc_name(exc)])
                    continue
            else:
                r = drive(_await_call(target, (n,), {}) if st in "aA" else _plain_call(target, (n,), {}), env.reply)
            res.append(_res(r))
        out[side] = [env.log, res]
        env.finish()
    return out


def observe(case):
    if case.get("t") == "misc":
        return _obs_misc(case)
    if case.get("family") == "adaptersfail":
        return fam_adapters_fail.observe(case)
    t = case["t"]
    if t == "syncseq":
        return _obs_syncseq(case)
    if t in ("any_iter", "await_each"):
        return _obs_gen(case)
    if t == "apply":
        return _obs_apply(case)
    return _obs_sync(case)


# ---------------------------------------------------------------------------------------------
# model request


def _exc_json(eid):
    return ["user", eid]


def _item_json(i, s):
    if s["form"] == "plain":
        return ["p", value_id(i)]
    res = ["ok", value_id(i)] if s.get("fail") is None else ["err", _exc_json(s["fail"])]
    return ["a", i, aw_toks(i, s["toks"]), res]


def model_request(case):
    if case.get("t") == "misc":
        return None
    if case.get("family") == "adaptersfail":
        return fam_adapters_fail.model_request(case)
    t = case["t"]
    if t == "syncseq":
        return None     # oracle-only: every call is an instance of the single-call statement C19_sync_same
    if t in ("any_iter", "await_each"):
        mk = MODEL_KIND[case["kind"]]
        pt = _ptoks(case)
        n = len(case["items"])
        items = [[pull_toks(i, pt[i]) if mk == "aiter" else [], _item_json(i, s)] for i, s in enumerate(case["items"])]
        req = {"m": "adapters", "t": t, "kind": mk, "items": items,
               "endToks": pull_toks(n, pt[n]) if mk == "aiter" else [], "ops": case["ops"]}
        if t == "any_iter":
            o = case.get("outer")
            req["outer"] = None if o is None else {
                "id": 9000, "toks": outer_toks(o["toks"]),
                "fail": None if o.get("fail") is None else _exc_json(o["fail"])}
        return req
    if t == "apply":
        n, p = len(case["items"]), case["split"]
        js = [_item_json(i, s) for i, s in enumerate(case["items"])]
        fres = ["ok", 500] if case["f"].get("fail") is None else ["err", _exc_json(case["f"]["fail"])]
        return {"m": "adapters", "t": "apply", "f": {"id": 5, "res": fres}, "args": js[:p],
                "kwargs": [[i - p, js[i]] for i in range(p, n)]}
    flavour = SYNC_VARIANTS[case["variant"]]
    res = ["ok", 700] if case.get("fail") is None else ["err", _exc_json(case["fail"])]
    return {"m": "adapters", "t": "sync", "flavour": flavour, "id": 1,
            "toks": aw_toks(0, case["toks"]) if flavour in RETURNS_AW else [],
            "res": res, "args": [200 + i for i in range(case["nargs"])],
            "kw": [[i, 300 + i] for i in range(case["nkw"])]}


# ---------------------------------------------------------------------------------------------
# judge


def _expected_results(case):
    """successive results of the generator, from the case alone: ('ok', id) | ('err', name)"""
    t = case["t"]
    if t == "any_iter":
        o = case.get("outer")
        if o is not None and o.get("fail") is not None:
            return [("err", ["user", o["fail"]])]
    elif case["kind"] in ASYNC_KINDS:
        return [("err", ["lib", "TypeError"])]
    rs = []
    for i, s in enumerate(case["items"]):
        if s["form"] == "plain":
            rs.append(("ok", value_id(i)) if t == "any_iter" else ("err", ["lib", "TypeError"]))
        elif s.get("fail") is not None:
            rs.append(("err", ["user", s["fail"]]))
        else:
            rs.append(("ok", value_id(i)))
    return rs


def _expected_outs(case):
    """what the property demands the consumer sees, operation by operation"""
    rs, outs, dead = _expected_results(case), [], False
    for op in case["ops"]:
        if op == "c":
            outs.append(["closed"])
            dead = True
        elif dead or not rs:
            outs.append(["stop"])
            dead = True
        else:
            tag, v = rs.pop(0)
            if tag == "ok":
                outs.append(["item", v])
            else:
                outs.append(["raised", v])
                dead = True
    return outs


def _aw_events(evs):
    return [e for e in evs if e[0] in ("start", "susp", "fin") and not (e[0] == "susp" and e[1] >= 100000 and e[1] < 900000)]


def _no_pulls(steps):
    return [[[e for e in evs if e[0] != "pull"], out] for evs, out in steps]


def _lazy_violation(case, steps):
    """await_each's own predicate on the real log: the i-th request awaits exactly the i-th element
    (from start through every suspension to completion), other operations await nothing"""
    if case["kind"] in ASYNC_KINDS:
        return None
    idx, dead = 0, False
    for pos, (op, (evs, out)) in enumerate(zip(case["ops"], steps)):
        got = _aw_events(evs)
        want = []
        if op == "c":
            dead = True
        elif not dead and idx < len(case["items"]):
            s = case["items"][idx]
            if s["form"] != "plain":
                want = [["start", idx]] + [["susp", t] for t in aw_toks(idx, s["toks"])] + [["fin", idx]]
            if s["form"] == "plain" or s.get("fail") is not None:
                dead = True
            idx += 1
        else:
            dead = True
        if got != want:
            return {"operation": pos, "awaited": got, "expected": want}
    return None


def _judge_gen(case, obs, model):
    issues = []
    t = case["t"]
    impl, ref = obs["impl"], obs["ref"]
    impl_outs = [s[1] for s in impl]
    ref_outs = [s[1] for s in ref]
    want = _expected_outs(case)
    if impl_outs != want:
        first = next((i for i, (a, b) in enumerate(zip(impl_outs, want)) if a != b), None)
        issues.append(Issue("oracle", {"first_diff_at_op": first, "impl": impl_outs, "expected": want},
                            t + "-items-differ"))
    elif impl_outs != ref_outs:
        issues.append(Issue("oracle", {"impl": impl_outs, "handwritten": ref_outs}, t + "-differs-from-handwritten"))
    if t == "await_each":
        bad = _lazy_violation(case, impl)
        if bad is not None:
            issues.append(Issue("oracle", bad, "await_each-not-lazy"))
        # "only when its consumer asks": the source of awaitables is advanced exactly as the hand-written loop advances it
        # (no pull while closing, none beyond the items asked for), and awaitables nobody asked for are left untouched
        pulls = [[e for e in evs if e[0] == "pull"] for evs, _ in impl]
        rpulls = [[e for e in evs if e[0] == "pull"] for evs, _ in ref]
        if impl_outs == ref_outs and pulls != rpulls:
            issues.append(Issue("oracle", {"impl_pulls_per_op": [len(x) for x in pulls], "handwritten": [len(x) for x in rpulls],
                                           "ops": case["ops"]}, "await_each-source-advanced-unasked"))
        if impl_outs == ref_outs and obs.get("impl_left") != obs.get("ref_left"):
            issues.append(Issue("oracle", {"impl": obs.get("impl_left"), "handwritten": obs.get("ref_left")},
                                "await_each-touched-unrequested-awaitables"))
    if ref_outs != want:
        issues.append(Issue("B", {"handwritten": ref_outs, "expected": want}))
    if model is not None:
        if "error" in model:
            issues.append(Issue("A", model))
            return issues
        m_outs = [s[1] for s in model["impl"]]
        if t == "any_iter":
            if m_outs != impl_outs:
                issues.append(Issue("A", {"impl": impl_outs, "model": m_outs}))
            elif model["impl"] != impl:
                issues.append(Issue("drift", {"impl": impl, "model": model["impl"]}, "any_iter-trace"))
        else:
            if _no_pulls(model["impl"]) != _no_pulls(impl):
                issues.append(Issue("A", {"impl": impl, "model": model["impl"]}))
            elif model["impl"] != impl:
                issues.append(Issue("drift", {"impl": impl, "model": model["impl"]}, "await_each-pulls"))
            if model.get("lazy") is not None:
                if model["lazy"] != ref:
                    issues.append(Issue("B", {"handwritten": ref, "lazy-spec": model["lazy"]}))
                if model["lazy"] != model["impl"]:
                    issues.append(Issue("MS", {"lazy": model["lazy"], "impl": model["impl"]}))
        if model.get("spec") is not None:
            if model["spec"] != ref_outs:
                issues.append(Issue("B", {"handwritten": ref_outs, "spec": model["spec"]}))
            if model["spec"] != m_outs:
                issues.append(Issue("MS", {"spec": model["spec"], "impl": m_outs}))
    return issues


def _judge_apply(case, obs, model):
    issues = []
    (evs, res), (revs, rres) = obs["impl"], obs["ref"]
    n, p = len(case["items"]), case["split"]
    fails = [i for i, s in enumerate(case["items"]) if s.get("fail") is not None or s["form"] == "plain"]
    calls = [e for e in evs if e[0] == "call"]
    if fails:
        bad = case["items"][fails[0]]
        want_res = ["err", ["lib", "TypeError"] if bad["form"] == "plain" else ["user", bad["fail"]]]
        if res != want_res:
            issues.append(Issue("oracle", {"result": res, "expected": want_res}, "apply-wrong-exception"))
        elif calls:
            issues.append(Issue("oracle", {"events": evs}, "apply-called-despite-failure"))
    else:
        want_call = ["call", 5, [value_id(i) for i in range(p)], [[i - p, value_id(i)] for i in range(p, n)]]
        want_res = ["ok", 500] if case["f"].get("fail") is None else ["err", ["user", case["f"]["fail"]]]
        if calls != [want_call]:
            issues.append(Issue("oracle", {"calls": calls, "expected": [want_call]}, "apply-wrong-arguments"))
        elif res != want_res:
            issues.append(Issue("oracle", {"result": res, "expected": want_res}, "apply-wrong-result"))
        else:
            before = evs[: evs.index(want_call)]
            done = [e[1] for e in before if e[0] == "fin"]
            if sorted(done) != list(range(n)) or evs[-1] != want_call:
                issues.append(Issue("oracle", {"events": evs}, "apply-not-all-awaited-before-call"))
    if not issues and (res != rres or calls != [e for e in revs if e[0] == "call"]):
        issues.append(Issue("oracle", {"impl": obs["impl"], "handwritten": obs["ref"]}, "apply-differs-from-handwritten"))
    if model is not None:
        if "error" in model:
            issues.append(Issue("A", model))
            return issues
        if model["impl"] != obs["impl"]:
            issues.append(Issue("A", {"impl": obs["impl"], "model": model["impl"]}))
        if model["spec"] != obs["ref"]:
            issues.append(Issue("B", {"handwritten": obs["ref"], "spec": model["spec"]}))
        if model["spec"] != model["impl"]:
            issues.append(Issue("MS", model))
    return issues


def _judge_sync(case, obs, model):
    issues = []
    flavour = SYNC_VARIANTS[case["variant"]]
    want_synced = "typeError" if flavour == "notCallable" else (
        "same" if flavour in ("asyncDef", "partialAsync") else "wrapped")
    if obs["synced"] != want_synced:
        tag = "sync-coroutine-function-not-returned-unchanged" if want_synced == "same" else "sync-wrapping-differs"
        issues.append(Issue("oracle", {"synced": obs["synced"], "expected": want_synced}, tag))
    elif flavour != "notCallable":
        if obs.get("call_raised") or not obs.get("awaitable", False):
            issues.append(Issue("oracle", {"obs": obs}, "sync-result-not-awaitable"))
        elif obs["impl"][1] != obs["ref"][1]:
            issues.append(Issue("oracle", {"impl": obs["impl"], "native": obs["ref"]}, "sync-different-result"))
        elif obs["impl"] != obs["ref"]:
            issues.append(Issue("oracle", {"impl": obs["impl"], "native": obs["ref"]}, "sync-different-call"))
    if model is not None:
        if "error" in model:
            issues.append(Issue("A", model))
            return issues
        if model["synced"] != obs["synced"] or model["impl"] != obs["impl"]:
            issues.append(Issue("A", {"impl": obs, "model": model}))
        if model["spec"] is not None:
            if model["spec"] != obs["ref"]:
                issues.append(Issue("B", {"native": obs["ref"], "spec": model["spec"]}))
            if model["spec"] != model["impl"]:
                issues.append(Issue("MS", model))
    return issues


def judge(case, obs, model):
    if case.get("t") == "misc":
        if obs["got"] != obs["want"]:
            return [Issue("oracle", obs, case["what"] + "-differs")]
        return []
    if case.get("family") == "adaptersfail":
        return fam_adapters_fail.judge(case, obs, model)
    if case["t"] == "syncseq":
        if obs["impl"] != obs["ref"]:
            return [Issue("oracle", {"impl": obs["impl"], "native": obs["ref"], "styles": case["styles"]},
                          "sync-result-depends-on-earlier-calls")]
        return []
    t = case["t"]
    if t in ("any_iter", "await_each"):
        return _judge_gen(case, obs, model)
    if t == "apply":
        return _judge_apply(case, obs, model)
    return _judge_sync(case, obs, model)


def features(case, obs):
    if case.get("t") == "misc":
        return ["t=misc", "misc=" + case["what"]]
    if case.get("family") == "adaptersfail":
        return fam_adapters_fail.features(case, obs)
    t = case["t"]
    f = ["t=" + t]
    if t in ("any_iter", "await_each"):
        forms = {s["form"] != "plain" for s in case["items"]}
        f += ["%s:n=%d" % (t, len(case["items"])), "%s:kind=%s" % (t, case["kind"]),
              "%s:requests=%d" % (t, case["ops"].count("n")),
              "%s:items=%s" % (t, "none" if not forms else "mixed" if len(forms) == 2 else "awaitable" if True in forms else "plain"),
              "%s:ending=%s" % (t, "close" if "c" in case["ops"] else "abandon")]
        if t == "any_iter":
            f.append("any_iter:outer=" + ("plain" if case.get("outer") is None else case["outer"]["form"]))
        if any(s.get("fail") is not None for s in case["items"]) or (case.get("outer") or {}).get("fail") is not None:
            f.append(t + ":fault")
        for evs, out in obs["impl"]:
            f.append("%s:out=%s" % (t, out[0]))
    elif t == "apply":
        f += ["apply:n=%d" % len(case["items"]), "apply:positional=%d" % case["split"],
              "apply:keywords=%d" % (len(case["items"]) - case["split"]), "apply:result=" + obs["impl"][1][0]]
    elif t == "syncseq":
        f += ["syncseq:styles=" + "".join(case["styles"])]
    else:
        f += ["sync:variant=" + case["variant"], "sync:" + obs["synced"], "sync:result=" + obs["impl"][1][0]]
    return f


def nontrivial(case, obs):
    if case.get("t") == "misc":
        return True
    if case.get("family") == "adaptersfail":
        return fam_adapters_fail.nontrivial(case, obs)
    t = case["t"]
    if t in ("any_iter", "await_each"):
        return any(out[0] in ("item", "raised") for _, out in obs["impl"])
    if t == "syncseq":
        return True
    return bool(obs["impl"][0]) or obs["impl"][1][0] == "err"


# ---------------------------------------------------------------------------------------------
# cases


def _endings(n):
    for k in range(0, n + 3):
        yield ["n"] * k
        yield ["n"] * k + ["c"]
        yield ["n"] * k + ["c", "n"]


def _aw_form(i):
    return "coro" if i % 2 == 0 else "obj"


def _form_lists(n, mixes_upto):
    yield ["plain"] * n
    if n:
        yield [_aw_form(i) for i in range(n)]
    if 2 <= n <= mixes_upto:
        for bits in itertools.product([0, 1], repeat=n):
            if 0 < sum(bits) < n:
                yield [_aw_form(i + sum(bits)) if b else "plain" for i, b in enumerate(bits)]


def _gen_cases(tier):
    mixes = 3 if tier == "quick" else 5
    c = 0
    for n in range(0, 7):
        # any_iter
        for forms in _form_lists(n, mixes):
            for outer in (False, True):
                for mk in ("list", "iter", "aiter"):
                    variants = [k for k in SYNC_KINDS + ASYNC_KINDS if MODEL_KIND[k] == mk]
                    for kind in (variants if (tier == "thorough" or n <= 4) else [None]):
                        for ops in _endings(n):
                            c += 1
                            k = kind or variants[c % len(variants)]
                            items = [{"form": f, "toks": (i + c) % 3 if f != "plain" else 0} for i, f in enumerate(forms)]
                            case = {"t": "any_iter", "kind": k, "items": items, "ops": ops,
                                    "outer": {"form": _aw_form(c), "toks": c % 3} if outer else None}
                            if k in ASYNC_KINDS:
                                case["ptoks"] = [(i + c) % 2 for i in range(n + 1)]
                            yield case
        # await_each
        for kind in SYNC_KINDS:
            for ops in _endings(n):
                c += 1
                items = [{"form": _aw_form(i + c), "toks": (i + c) % 3} for i in range(n)]
                yield {"t": "await_each", "kind": kind, "items": items, "ops": ops}
    # faults: one failing awaitable at every position; failing outer
    for n in range(1, 5):
        for pos in range(n):
            for kind in SYNC_KINDS + ASYNC_KINDS:
                c += 1
                items = [{"form": _aw_form(i + c), "toks": (i + c) % 2} for i in range(n)]
                items[pos]["fail"] = 40 + pos
                for ops in (["n"] * (n + 1), ["n"] * (pos + 1) + ["c", "n"]):
                    yield {"t": "any_iter", "kind": kind, "items": items, "ops": ops,
                           "outer": {"form": _aw_form(c), "toks": c % 2} if c % 2 else None,
                           "ptoks": [c % 2] * (n + 1)}
                    if kind in SYNC_KINDS:
                        yield {"t": "await_each", "kind": kind, "items": items, "ops": ops}
    for kind in SYNC_KINDS + ASYNC_KINDS:
        for form in ("coro", "obj"):
            yield {"t": "any_iter", "kind": kind, "items": [{"form": "plain", "toks": 0}] * 2, "ops": ["n", "n", "c"],
                   "outer": {"form": form, "toks": 1, "fail": 77}}
    # await_each on elements that are not awaitable, and on an async container
    for kind in SYNC_KINDS:
        for pos in range(3):
            items = [{"form": _aw_form(i), "toks": 1} for i in range(3)]
            items[pos] = {"form": "plain", "toks": 0}
            yield {"t": "await_each", "kind": kind, "items": items, "ops": ["n"] * 4}
    for kind in ASYNC_KINDS:
        yield {"t": "await_each", "kind": kind, "items": [{"form": "coro", "toks": 1}] * 2, "ops": ["n", "n", "c"]}


def _odd_cases():
    """any_iter over plain items that only look awaitable to hasattr (see _odd_plain), in every container kind"""
    for kind in SYNC_KINDS + ASYNC_KINDS:
        for odd in (1, 2, 3):
            for n in (1, 3):
                for outer in (None, {"form": "coro", "toks": 1}):
                    items = [{"form": "plain", "toks": 0, "odd": odd if i % 2 == 0 else 0} for i in range(n)]
                    yield {"t": "any_iter", "kind": kind, "items": items, "ops": ["n"] * (n + 1), "outer": outer}
                    mixed = [{"form": "coro", "toks": 1}] + items
                    yield {"t": "any_iter", "kind": kind, "items": mixed, "ops": ["n"] * (n + 2), "outer": outer}


def _apply_cases(tier):
    c = 0
    for n in range(0, 7):
        for p in range(0, n + 1):
            for ffail in (None, 66):
                c += 1
                items = [{"form": _aw_form(i + c), "toks": (i + c) % 3} for i in range(n)]
                yield {"t": "apply", "items": items, "split": p, "f": {"fail": ffail}}
            for pos in range(n if (tier == "thorough" or n <= 4) else 0):
                c += 1
                items = [{"form": _aw_form(i + c), "toks": (i + c) % 2} for i in range(n)]
                items[pos]["fail"] = 40 + pos
                yield {"t": "apply", "items": items, "split": p, "f": {"fail": None}}
    # a positional / keyword argument that is not awaitable
    for p in (0, 1, 2):
        items = [{"form": "coro", "toks": 1}, {"form": "plain", "toks": 0}]
        yield {"t": "apply", "items": items, "split": p, "f": {"fail": None}}


def _sync_cases():
    for variant in SYNC_VARIANTS:
        for nargs in range(3):
            for nkw in range(3):
                for toks in range(3):
                    for fail in (None, 55):
                        yield {"t": "sync", "variant": variant, "nargs": nargs, "nkw": nkw, "toks": toks, "fail": fail}


def _random_case(rng, big):
    t = rng.choice(["any_iter", "any_iter", "await_each", "apply"])
    n = rng.randint(0, 10 if big else 8)
    if t == "apply":
        n = min(n, 8)
        items = [{"form": rng.choice(["coro", "obj"]), "toks": rng.randint(0, 3)} for _ in range(n)]
        if n and rng.random() < 0.3:
            items[rng.randrange(n)]["fail"] = rng.randint(40, 49)
        return {"t": "apply", "items": items, "split": rng.randint(0, n),
                "f": {"fail": rng.choice([None, None, 66])}}
    ops = []
    for _ in range(rng.randint(0, n + 3)):
        ops.append("c" if rng.random() < 0.12 else "n")
    if t == "await_each":
        items = [{"form": rng.choice(["coro", "obj"]), "toks": rng.randint(0, 3)} for _ in range(n)]
        if n and rng.random() < 0.25:
            items[rng.randrange(n)]["fail"] = rng.randint(40, 49)
        if n and rng.random() < 0.05:
            items[rng.randrange(n)] = {"form": "plain", "toks": 0}
        return {"t": "await_each", "kind": rng.choice(SYNC_KINDS), "items": items, "ops": ops}
    items = []
    for _ in range(n):
        form = rng.choice(["plain", "coro", "obj"])
        items.append({"form": form, "toks": rng.randint(0, 3) if form != "plain" else 0})
    if n and rng.random() < 0.25:
        i = rng.randrange(n)
        if items[i]["form"] != "plain":
            items[i]["fail"] = rng.randint(40, 49)
    outer = None
    if rng.random() < 0.5:
        outer = {"form": rng.choice(["coro", "obj"]), "toks": rng.randint(0, 3)}
        if rng.random() < 0.08:
            outer["fail"] = 77
    return {"t": "any_iter", "kind": rng.choice(SYNC_KINDS + ASYNC_KINDS), "items": items, "ops": ops,
            "outer": outer, "ptoks": [rng.randint(0, 2) for _ in range(n + 1)]}


def _syncseq_cases():
    import itertools as _it
    for n in (2, 3):
        for styles in _it.product("paPA", repeat=n):
            for toks in (0, 1):
                for obj in (False, True):
                    yield {"t": "syncseq", "styles": list(styles), "toks": toks, "obj": obj}


def cases(tier, rng):
    yield from _syncseq_cases()
    for bound in (False, True):
        yield {"t": "misc", "what": "sync-asyncgen", "bound": bound}
    for kw in (False, True):
        yield {"t": "misc", "what": "apply-same-awaitable-twice", "kw": kw}
    # failure / cancellation / early-end paths with the ordered await log (Machines/AdaptersFail.lean)
    for c in fam_adapters_fail.cases(rng, 2500 if tier == "quick" else 30000):
        yield dict(c, t="adaptersfail")
    yield from _gen_cases(tier)
    yield from _odd_cases()
    yield from _apply_cases(tier)
    yield from _sync_cases()
    for _ in range(5000 if tier == "quick" else 150000):
        yield _random_case(rng, tier == "thorough")


def search_cases(broken_cases, rng):
    """neighbours of disagreeing cases + a random sweep, judged by the direct oracles only"""
    for case in broken_cases:
        if case["t"] in ("any_iter", "await_each"):
            kinds = SYNC_KINDS + (ASYNC_KINDS if case["t"] == "any_iter" else [])
            for kind in kinds:
                yield dict(case, kind=kind)
            for cut in range(len(case["ops"])):
                yield dict(case, ops=case["ops"][:cut])
            n = len(case["items"])
            yield dict(case, ops=["n"] * (n + 2))
        elif case["t"] == "apply":
            for p in range(len(case["items"]) + 1):
                yield dict(case, split=p)
        else:
            for v in SYNC_VARIANTS:
                yield dict(case, variant=v)
    yield from _gen_cases("quick")
    yield from _apply_cases("quick")
    yield from _sync_cases()
    for _ in range(2000):
        yield _random_case(rng, False)
