"""C02 — aggregations return the standard-library result and never alter their inputs."""
import itertools

import s1
import tools
from framework import Issue
from s1 import model_request, observe  # noqa: F401
from tools import build_case

RULE = (
    "every aggregation (all, any, sum, min, max, list, tuple, set, dict, sorted, reduce, nlargest, nsmallest) x parameter grid "
    "(key absent/sync/async, reverse, default, start/initial incl. a list start, n from 0 to beyond the length) x all item "
    "sequences up to length L over 2-3 keys (ties among distinguishable items), mixed numeric types, unorderable items; "
    "input as list / one-shot iterator / async generator / class-based iterator; plus seeded random longer cases. Compared "
    "with the real builtins/functools/heapq function on the same data: result by identity of the items, or exception type; "
    "argument objects compared before/after. non-trivial = non-empty input; distinct by case content"
)
EXHAUSTIVE = {"quick": True, "thorough": True}
SCOPE = {"quick": "L=4 over 2 keys (3 for sorted-like), full parameter grid", "thorough": "L=5"}
ASSUMPTIONS = ["float summation is compared separately (open finding D15: CPython >= 3.12 uses compensated summation)"]
KINDS = ["list", "iter", "agen", "aobj", "seq", "aobj_nc"]
KEYF = {"kind": "negkey"}
KEYMOD = {"kind": "keymod", "m": 2, "r": 0}
PAIR = {"kind": "pair"}


def grid(tier):
    ns = [0, 1, 2, 3, 6]
    return {
        "all": ([{}], [], "obj"), "any": ([{}], [], "obj"),
        "sum": ([{}, {"start": ["i", 5]}, {"start": ["b", True]}], [], "int"),
        "min": ([{}, {"key": 0}, {"default": ["o", 999, 7]}, {"key": 0, "default": ["o", 999, 7]}, {"default": ["n"]}], [KEYF], "obj"),
        "max": ([{}, {"key": 0}, {"default": ["o", 999, 7]}, {"key": 0, "default": ["o", 999, 7]}, {"default": ["n"]}], [KEYF], "obj"),
        "list": ([{}], [], "obj"), "tuple": ([{}], [], "obj"), "set": ([{}], [], "obj"),
        "dict": ([{}], [], "pairs"),
        "sorted": ([{}, {"reverse": True}, {"key": 0}, {"key": 0, "reverse": True}], [KEYMOD], "obj3"),
        "reduce": ([{}, {"initial": ["o", 900, 1]}], [PAIR], "obj"),
        "nlargest": ([dict(n=n) for n in ns] + [dict(n=n, key=0) for n in ns], [KEYMOD], "obj3"),
        "nsmallest": ([dict(n=n) for n in ns] + [dict(n=n, key=0) for n in ns], [KEYMOD], "obj3"),
    }


def _script(style, ks, rng):
    if style == "int":
        return [["i", k] if (i + k) % 3 else ["b", bool(k)] for i, k in enumerate(ks)]
    if style == "pairs":
        return [["t", ["o", 2 * i, k], ["o", 2 * i + 1, i]] for i, k in enumerate(ks)]
    return [["o", i, k] for i, k in enumerate(ks)]


def cases(tier, rng):
    L = 4 if tier == "quick" else 5
    n = 0
    for tool, (plist, fns, style) in grid(tier).items():
        nk = 3 if style == "obj3" else 2
        for params in plist:
            for ln in range(0, L + 1):
                for ks in itertools.product(range(nk), repeat=ln):
                    n += 1
                    kind = KINDS[n % len(KINDS)]
                    fl = s1.FLAV[n % 4]
                    yield {"tool": tool, "params": params, "srcs": [{"kind": kind, "script": _script(style, ks, rng)}],
                           "fns": [dict(f, flavour=fl) for f in fns], "cons": {"fin": "exhaust"}}
    # special inputs: list start (must not be mutated), str start, unorderable / unhashable items, floats
    special = [
        ("sum", {"start": ["l", ["i", 1]]}, [["l", ["i", 2]], ["l", ["i", 3]]]),
        ("sum", {"start": ["l"]}, [["l", ["i", 2]]]),
        ("sum", {"start": ["s", "a"]}, [["s", "b"]]),
        ("sum", {}, [["i", 1], ["n"]]),
        ("sum", {}, [["f", 0.1]] * 10),
        ("sum", {"start": ["f", 1e100]}, [["f", 1.0], ["f", -1e100]]),
        ("min", {}, [["i", 1], ["n"]]), ("max", {}, [["n"], ["i", 1]]),
        ("sorted", {}, [["i", 2], ["n"], ["i", 1]]), ("sorted", {}, [["n"]]),
        ("sorted", {"reverse": True}, [["i", 2], ["n"]]),
        ("set", {}, [["l", ["i", 1]]]), ("dict", {}, [["i", 1]]), ("dict", {}, [["t", ["l"], ["i", 1]]]),
        ("nlargest", {"n": 2}, [["i", 2], ["n"], ["i", 1]]), ("nsmallest", {"n": 1}, [["n"], ["i", 1]]),
        ("min", {"default": ["l", ["i", 1]]}, []), ("max", {"key": 0, "default": ["l", ["i", 1]]}, []),
        ("reduce", {}, []), ("min", {}, []), ("max", {"key": 0}, []),
        # `+` between different sequence kinds raises where an in-place `+=` on an intermediate list would not
        ("sum", {"start": ["l"]}, [["l", ["i", 1]], ["t", ["i", 2]]]),
        ("sum", {"start": ["l"]}, [["l", ["i", 1]], ["l", ["i", 2]], ["t", ["i", 3]]]),
        ("sum", {"start": ["l", ["i", 0]]}, [["l", ["i", 1]], ["s", "ab"]]),
        ("sum", {"start": ["t"]}, [["t", ["i", 1]], ["l", ["i", 2]]]),
        # summable objects whose `+=` works in place and whose `0 + x` is `x` itself: no input item may change
        ("sum", {}, [["acc", 1], ["acc", 2], ["acc", 3]]), ("sum", {}, [["acc", 1], ["acc", 2]]), ("sum", {}, [["acc", 5]]),
        ("sum", {"start": ["acc", 10]}, [["acc", 1], ["acc", 2], ["acc", 3]]),
        ("reduce", {"fn": "add"}, [["acc", 1], ["acc", 2], ["acc", 3]]),
    ]
    # odd winners: the selected element is None / a fill-like object / the empty tuple / False (what an "empty" marker,
    # a truthiness test or a private sentinel is most easily confused with); the key function maps them to 0
    for odd in (["n"], ["fill"], ["t"], ["b", False]):
        for n in (1, 2, 3):
            special += [
                ("nlargest", {"n": n, "key": 0}, [["i", 1], odd, ["i", 2]]),      # negated keys: the odd item is the largest
                ("nsmallest", {"n": n, "key": 0}, [["i", -1], odd, ["i", -2]]),  # ... the smallest
                ("nlargest", {"n": n, "key": 0}, [odd]), ("nsmallest", {"n": n, "key": 0}, [odd]),
                ("nlargest", {"n": n}, [odd]), ("nsmallest", {"n": n}, [odd]),
                ("nlargest", {"n": n, "key": 0}, [odd, odd]), ("nsmallest", {"n": n}, [odd, odd]),
            ]
        special += [
            ("max", {"key": 0}, [["i", 1], odd, ["i", 2]]), ("min", {"key": 0}, [["i", -1], odd, ["i", -2]]),
            ("max", {}, [odd]), ("min", {}, [odd]), ("max", {"default": ["i", 7]}, [odd]), ("min", {"key": 0, "default": ["i", 7]}, [odd]),
            ("sorted", {"key": 0}, [["i", 1], odd, ["i", -1]]), ("sorted", {"key": 0, "reverse": True}, [odd, ["i", 1], odd]),
            ("reduce", {}, [odd]), ("reduce", {"initial": odd}, []), ("sum", {"start": odd}, []),
        ]
    for tool, params, script in special:
        for kind in KINDS:
            fns = [dict(KEYF, flavour="async")] if params.get("key") is not None else ([dict(PAIR, flavour="def")] if tool == "reduce" else [])
            if params.get("fn") == "add":
                params, fns = {}, [{"kind": "add", "flavour": "async"}]
            yield {"tool": tool, "params": params, "srcs": [{"kind": kind, "script": script}], "fns": fns,
                   "cons": {"fin": "exhaust"}}
    # a user callable that raises the end-of-iteration signal itself (it advanced an iterator of its own): an aggregation
    # is a coroutine, so the signal must surface as it does from the builtin, never be read as "the input is empty"
    for tool, params, fn in (("reduce", {}, PAIR), ("reduce", {"initial": ["o", 900, 1]}, PAIR), ("min", {"key": 0}, KEYF),
                             ("max", {"key": 0}, KEYF), ("sorted", {"key": 0}, KEYMOD), ("nlargest", {"n": 2, "key": 0}, KEYMOD),
                             ("nsmallest", {"n": 1, "key": 0}, KEYMOD)):
        for ln in (1, 2, 3, 4):
            for k in range(ln):
                for i, kind in enumerate(KINDS):
                    yield {"tool": tool, "params": params, "family": "stopfault",
                           "srcs": [{"kind": kind, "script": [["o", j, j % 2] for j in range(ln)]}],
                           "fns": [dict(fn, flavour=s1.FLAV[(i + k) % 4], fail_at=k, fail_kind="stop")], "cons": {"fin": "exhaust"}}
    yield from _pyobj_cases()
    yield from _dictkw_cases(rng)
    yield from s1.impure_fn_cases(tier, rng, KINDS, tools_subset=s1.AGG_TOOLS)
    yield from s1.odd_value_cases(tier, rng, KINDS, 300 if tier == "quick" else 5000, tools_subset=["all", "any", "list", "tuple"])
    nr = 3000 if tier == "quick" else 50000
    g = grid(tier)
    names = list(g)
    for _ in range(nr):
        tool = rng.choice(names)
        plist, fns, style = g[tool]
        ks = [rng.randrange(4) for _ in range(rng.randint(0, 9))]
        yield {"tool": tool, "params": rng.choice(plist), "srcs": [{"kind": rng.choice(KINDS), "script": _script(style, ks, rng)}],
               "fns": [dict(f, flavour=rng.choice(s1.FLAV)) for f in fns], "cons": {"fin": "exhaust"}}


# ---------------------------------------------------------------------------------------------
# inputs that are real Python objects of the less common iterable types, compared directly with the builtin


import collections as _collections

_Point = _collections.namedtuple("_Point", "x y z")
_Pair = _collections.namedtuple("_Pair", "k v")


class _RevTuple(tuple):
    """tuple subclass that iterates backwards"""

    def __iter__(self):
        return iter([self[i] for i in range(len(self) - 1, -1, -1)])


class _DupList(list):
    """list subclass whose iteration yields every element twice"""

    def __iter__(self):
        for x in list.__iter__(self):
            yield x
            yield x


class _FalsyIterable:
    """an iterable (not an iterator) that is falsy although it has items"""

    def __init__(self, xs):
        self.xs = xs

    def __bool__(self):
        return False

    def __iter__(self):
        return iter(self.xs)


def _pyobj(name):
    ints = [3, 1, 2, 1]
    return {
        "tuple": lambda: tuple(ints), "namedtuple": lambda: _Point(3, 1, 2), "revtuple": lambda: _RevTuple(ints),
        "duplist": lambda: _DupList(ints), "dict": lambda: {3: "c", 1: "a", 2: "b"}, "dictitems": lambda: {3: "c", 1: "a"}.items(),
        "str": lambda: "cab", "bytes": lambda: b"cab", "range": lambda: range(4, 0, -1), "frozenset": lambda: frozenset([2]),
        "deque": lambda: _collections.deque(ints), "falsy": lambda: _FalsyIterable(ints), "empty-tuple": lambda: (),
        "empty-str": lambda: "", "genexp": lambda: (x for x in ints), "pairs-namedtuple": lambda: [_Pair(1, "a"), (2, "b"), _Pair(1, "c")],
        "bools": lambda: (True, False, True), "floats-tuple": lambda: (0.5, 1.5),
        "strpairs": lambda: [("a", 1), ("z", 2), ("b", 3), ("a", 4)],
        # elements that are not pairs, of every shape: sized or one-shot, too long / too short / not iterable / unhashable key
        "pair-iter3": lambda: [(1, 2), iter([3, 4, 5])], "pair-iter1": lambda: [(1, 2), iter([3])], "pair-gen2": lambda: [(x for x in (7, 8))],
        "pair-map3": lambda: [map(int, "123")], "pair-tuple3": lambda: [(1, 2, 3)], "pair-str2": lambda: ["ab", "c"], "pair-int": lambda: [(1, 2), 5],
        "pair-unhashable": lambda: [([1], 2)], "pair-list2": lambda: [[1, 2], [1, 3]], "pair-set2": lambda: [{4, 5}],
    }[name]()


_PAIRISH = ["pair-iter3", "pair-iter1", "pair-gen2", "pair-map3", "pair-tuple3", "pair-str2", "pair-int", "pair-unhashable", "pair-list2",
            "pair-set2"]
_PYOBJ_NAMES = ["strpairs", "tuple", "namedtuple", "revtuple", "duplist", "dict", "dictitems", "str", "bytes", "range", "frozenset", "deque",
                "falsy", "empty-tuple", "empty-str", "genexp", "pairs-namedtuple", "bools", "floats-tuple"]
_PYOBJ_TOOLS = ["all", "any", "sum", "min", "max", "list", "tuple", "set", "dict", "sorted", "reduce", "nlargest", "nsmallest"]


def _pyobj_cases():
    for name in _PYOBJ_NAMES:
        for tool in _PYOBJ_TOOLS:
            if tool == "dict" and name == "dict":
                continue    # dict(mapping) copies the mapping (CPython looks for .keys()); asyncstdlib.dict takes iterables of pairs only - documented
            yield {"tool": tool, "family": "pyobj", "input": name, "params": {}, "srcs": [{"kind": "list", "script": [["s", name]]}],
                   "fns": [], "cons": {"fin": "exhaust"}}
    for name in _PAIRISH:
        for tool in ("dict",):
            yield {"tool": tool, "family": "pyobj", "input": name, "params": {}, "srcs": [{"kind": "list", "script": [["s", name]]}],
                   "fns": [], "cons": {"fin": "exhaust"}}
    # keyword arguments of the Python-level signatures: dict(pairs, **kw) (kw after the pairs, overriding them), sorted/min/max
    for name, kws in (("strpairs", [{"b": 9, "q": 0}, {"q": 0, "a": 7}, {"iterable": 5, "self": 6}]), ("empty-tuple", [{"b": 9, "a": 8}]),
                      ("pairs-namedtuple", [{"x": 1}])):
        for kw in kws:
            yield {"tool": "dict", "family": "pyobj", "input": name, "kw": kw, "params": {}, "srcs": [{"kind": "list", "script": [["s", name]]}],
                   "fns": [], "cons": {"fin": "exhaust"}}
    for tool, kws in (("sorted", [{"reverse": True}, {"reverse": 0}, {"key": None}, {"key": None, "reverse": 1}]),
                      ("min", [{"default": 7}, {"key": None}, {"key": None, "default": None}]), ("max", [{"default": 7}, {"key": None}]),
                      ("sum", [{"start": 10}]), ("nlargest", [{"key": None}]), ("nsmallest", [{"key": None}])):
        for name in ("tuple", "empty-tuple", "revtuple", "range", "falsy"):
            for kw in kws:
                yield {"tool": tool, "family": "pyobj", "input": name, "kw": kw, "params": {}, "srcs": [{"kind": "list", "script": [["s", name]]}],
                       "fns": [], "cons": {"fin": "exhaust"}}


def _dictkw_cases(rng):
    """dict(pairs, **kw) inside the value model (Impl.dictKw / Std.dictKw, Properties/C02DictKw.lean): string keys k0..k3 in
    the pairs, keywords that repeat some of them and add others, every source kind, faults in the source"""
    n = 0
    for kind in ("list", "iter", "agen", "aobj"):
        for pairs in ([], [0], [0, 1], [1, 0, 1], [2, 0, 1, 0]):
            for kw in ([], [1], [0, 3], [3, 0], [1, 1 + 2], [2, 1, 0]):
                script = [["t", ["s", "k%d" % k], ["o", 10 * i + 1, i]] for i, k in enumerate(pairs)]
                kws = [[["s", "k%d" % k], ["o", 500 + j, 50 + j]] for j, k in enumerate(kw)]
                base = {"tool": "dict", "family": "dictkw", "params": {"kw": kws}, "srcs": [{"kind": kind, "script": script}], "fns": [],
                        "cons": {"fin": "exhaust"}}
                yield base
                n += 1
                if kind in ("agen", "aobj", "iter") and script and n % 2 == 0:
                    pos = n % (len(script) + 1)
                    yield dict(base, srcs=[{"kind": kind, "script": script[:pos] + [["!", 40 + pos]] + script[pos:]}])


def _untext(x):
    """string keys k<N> as the model's value domain has them: ints 1000+N"""
    if isinstance(x, list):
        if len(x) == 2 and x[0] == "s" and isinstance(x[1], str) and x[1][:1] == "k" and x[1][1:].isdigit():
            return ["i", 1000 + int(x[1][1:])]
        return [_untext(y) for y in x]
    if isinstance(x, dict):
        return {k: _untext(v) for k, v in x.items()}
    if isinstance(x, str) and x[:1] == "k" and x[1:].isdigit():
        return ["i", 1000 + int(x[1:])]
    return x


def _deep(v):
    if isinstance(v, (list, tuple)):
        return [type(v).__name__] + [_deep(x) for x in v]
    if isinstance(v, (set, frozenset)):
        return [type(v).__name__] + sorted(map(repr, v))
    if isinstance(v, dict):
        return [type(v).__name__] + [[_deep(k), _deep(x)] for k, x in v.items()]
    return [type(v).__name__, repr(v)]


def _observe_pyobj(case):
    import builtins, functools, heapq, operator
    import asyncstdlib as A
    from world import drive, exc_name
    tool, name = case["tool"], case["input"]
    extra = {"reduce": (operator.add,), "nlargest": (2,), "nsmallest": (2,)}.get(tool, ())
    kw = case.get("kw") or {}

    def call(fn, obj, side):
        if tool in ("nlargest", "nsmallest"):      # heapq.nlargest(n, iterable) / asyncstdlib.nlargest(iterable, n)
            return fn(obj, 2, **kw) if side == "async" else fn(2, obj, **kw)
        return fn(extra[0], obj) if extra else fn(obj, **kw)
    out = {}
    for side in ("async", "sync"):
        obj = _pyobj(name)
        before = _deep(obj) if not name == "genexp" else None
        try:
            if side == "async":
                fn = getattr(A, tool)
                r = drive(call(fn, obj, side))
                if r.exc is not None:
                    raise r.exc
                res = r.value
            else:
                fn = {"reduce": functools.reduce, "nlargest": heapq.nlargest, "nsmallest": heapq.nsmallest}.get(tool) or getattr(builtins, tool)
                res = call(fn, obj, side)
            o = ["returned", _deep(res)]
        except BaseException as exc:  # noqa: B036
            o = ["raised", exc_name(exc)]
        out[side] = {"out": o, "vis": [], "mutated": [] if before is None or _deep(obj) == before else ["input"]}
    return out


def observe(case):  # noqa: F811
    if case.get("family") == "pyobj":
        return _observe_pyobj(case)
    return s1.observe(case)


def _norm_stop(out):
    if out[0] == "raised" and out[1] in (["lib", "StopIteration"], ["lib", "StopAsyncIteration"]):
        return ["raised", ["lib", "Stop(Async)Iteration"]]
    return out


def _is_float_case(case):
    return any(e[0] == "f" for e in case["srcs"][0]["script"]) or (case["params"].get("start") or [""])[0] == "f"


def judge(case, obs, model):
    issues = []
    a, s = obs["async"], obs["sync"]
    tool = case["tool"]
    if case.get("family") == "stopfault":
        a, s = dict(a, out=_norm_stop(a["out"])), dict(s, out=_norm_stop(s["out"]))
    if a["out"] != s["out"]:
        if a["out"][0] == "raised" and s["out"][0] == "raised":
            tag = "exception-type-differs:" + tool
        elif s["out"][0] == "raised":
            tag = "no-exception-where-stdlib-raises:" + tool
        elif a["out"][0] == "raised":
            tag = "raises-where-stdlib-returns:" + tool
        elif _is_float_case(case):
            tag = "float-sum-differs:" + tool
        else:
            tag = "result-differs:" + tool
        issues.append(Issue("oracle", {"asyncstdlib": a["out"], "stdlib": s["out"]}, tag))
    if a.get("mutated"):
        issues.append(Issue("oracle", {"mutated": a["mutated"]}, "argument-mutated:" + tool))
    if case["params"].get("default") is not None and not case["srcs"][0]["script"]:
        if "default" not in a.get("returned_param", []):
            issues.append(Issue("oracle", {"out": a["out"]}, "default-not-returned-untouched:" + tool))
        if any(ev[0] == "call" for ev in a["vis"]):
            issues.append(Issue("oracle", {"vis": a["vis"]}, "key-applied-to-default:" + tool))
    if model is not None and "error" not in model:
        if case.get("family") == "dictkw":
            obs = _untext(obs)
        issues += s1.correspondence(case, obs, model, lambda vis, out: [out])
    return issues


def _plain(j):
    return j[0] in ("o", "i", "b", "n", "fill") or (j[0] == "t" and all(_plain(x) for x in j[1:]))


def model_request(case):  # noqa: F811
    """the special value domains (lists, strings, floats) are outside the Lean value model"""
    if case.get("family") == "dictkw":
        return _untext(tools.model_request(case))
    vals = list(case["srcs"][0]["script"]) + [v for k, v in case["params"].items() if isinstance(v, list)]
    if not all(_plain(v) for v in vals) or case.get("family") in ("pyobj", "stopfault"):
        return None
    if case["tool"] in ("min", "max", "sorted", "nlargest", "nsmallest") and case["params"].get("key") is None \
            and any(v[0] == "t" for v in case["srcs"][0]["script"]):
        return None     # tuples are orderable in Python (lexicographically); the value model orders numbers and objects only
    return tools.model_request(case)


def features(case, obs):
    f = ["tool=" + case["tool"], "kind=" + case["srcs"][0]["kind"], "out=" + obs["async"]["out"][0],
         "len=%d" % len(case["srcs"][0]["script"])]
    f += ["param=" + k for k in case["params"]]
    keys = [e[2] for e in case["srcs"][0]["script"] if e[0] == "o"]
    if len(keys) != len(set(keys)):
        f.append("ties")
    return f


def nontrivial(case, obs):
    return bool(case["srcs"][0]["script"])


def search_cases(broken, rng):
    yield from cases("quick", rng)
