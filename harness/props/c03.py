"""C03 — async neutrality: sync and async arguments are interchangeable."""
import inspect
import itertools
import json

import s1
import tools
from framework import Issue
import fam_awaitify_reuse
from tools import run_async, yields
from world import asyncstdlib
from world import UserExc as world_UserExc

RULE = (
    "metamorphic: every tool and aggregation x parameter grid x item sequences up to length L is run under EVERY assignment of "
    "{list, sequence via __getitem__, sync iterator, async generator, class-based async iterator} to its iterable parameters "
    "(full product up to 2 sources, sampled beyond) and {def, async def, partial(async def), callable object returning a "
    "coroutine} to its callable parameters; yields, return value and raised exception must equal the all-sync baseline "
    "(list / def), with and without a fault injected into a source or callable. One extra case checks every name of "
    "asyncstdlib.__all__ for returning an awaitable / async iterator / async context manager with all-sync arguments. "
    "non-trivial = baseline yields something or returns/raises; distinct by base case"
)
EXHAUSTIVE = {"quick": True, "thorough": True}
SCOPE = {"quick": "L=2, full flavour product for <=2 sources x <=1 callable", "thorough": "L=3"}
ASSUMPTIONS = ["exit callbacks: the exitstack family runs every flavour assignment of exit handlers (def / async def / partial / object), "
               "context managers (sync / async) and callbacks over all stacks of <=2 (thorough 3) entries x 6 behaviours x block outcome; "
               "the unwinding order itself is C14's subject"]
KINDS = ["list", "seq", "iter", "agen", "aobj", "aobj_nc"]     # aobj_nc: a class-based async iterator WITHOUT aclose
FLAV = ["def", "async", "partial", "obj", "objx", "cls", "bound", "wrapsdef"]   # objx: callable object whose failure is raised at call time


def _groupby_cases(tier):
    """groupby is the one tool that can be advanced again after its key function raised: the Awaitify decision made
    on the first call must survive a failing first call"""
    for keys in ([0, 0, 1, 1, 0], [0, 1], [1, 1, 1]):
        for fail in (None, 0, 1, 2):
            yield {"tool": "groupby", "family": "groupby", "keys": keys, "fail_at": fail, "srcs": [], "params": {}}


def _run_groupby(case, kind, flavour):
    from tools import make_fn, mkscript
    from world import Item, drive, exc_name, make_source
    log = []
    items = [("item", Item(i, k)) for i, k in enumerate(case["keys"])]
    src, _ = make_source(kind, items, 0, log)
    spec = {"kind": "key", "flavour": flavour}
    if case["fail_at"] is not None:
        spec.update(fail_at=case["fail_at"], eid=61)
    gb = asyncstdlib.groupby(src, make_fn(spec, 0, log, flavour))
    out = []
    for _ in range(len(case["keys"]) + 3):
        res = drive(gb.__anext__())
        if isinstance(res.exc, StopAsyncIteration):
            out.append(["stop"])
            break
        if res.exc is not None:
            out.append(["exc", exc_name(res.exc)])
            continue
        k, g = res.value
        got = []
        while True:
            r = drive(g.__anext__())
            if r.exc is not None:
                if not isinstance(r.exc, StopAsyncIteration):
                    got.append(["exc", exc_name(r.exc)])
                break
            got.append(r.value.id)
        out.append(["key", k if isinstance(k, int) else type(k).__name__, got])
    return out


def _awaitify_cases(tier):
    """every flavour x every sequence of invocations (ok / fail) on ONE awaitify wrapper"""
    n = 4 if tier == "quick" else 6
    for fl in FLAV:
        for ln in range(1, n + 1):
            for pat in itertools.product(("ok", "fail"), repeat=ln):
                yield {"tool": "awaitify", "family": "awaitify", "flavour": fl, "srcs": [], "params": {},
                       "behs": [[b, 10 + i] for i, b in enumerate(pat)]}


def _run_awaitify(case):
    import inspect as _inspect
    from asyncstdlib._core import awaitify
    from tools import make_fn
    from world import drive, exc_name
    log = []
    fails = [i for i, b in enumerate(case["behs"]) if b[0] == "fail"]
    state = {"n": 0}

    def base_body(args):
        i = state["n"]
        state["n"] += 1
        if case["behs"][i][0] == "fail":
            raise world_UserExc(case["behs"][i][1])
        return case["behs"][i][1]
    fl = case["flavour"]
    if fl == "def":
        def f(*a):
            return base_body(a)
    elif fl == "async":
        async def f(*a):
            return base_body(a)
    elif fl == "partial":
        import functools as _ft

        async def g(_t, *a):
            return base_body(a)
        f = _ft.partial(g, "t")
    elif fl == "obj":
        class O:
            def __call__(self, *a):
                async def co():
                    return base_body(a)
                return co()
        f = O()
    elif fl == "cls":
        class f:        # a class whose instances are awaitable
            def __init__(self, *a):
                self.a = a

            def __await__(self):
                return base_body(self.a)
                yield
    elif fl == "bound":
        class H:
            async def m(self, *a):
                return base_body(a)
        f = H().m
    elif fl == "wrapsdef":
        import functools as _ft2

        async def _orig(*a):
            raise AssertionError("must not be called")

        @_ft2.wraps(_orig)
        def f(*a):
            return base_body(a)
    else:
        class OX:
            def __call__(self, *a):
                if case["behs"][state["n"]][0] == "fail":
                    return base_body(a)
                async def co():
                    return base_body(a)
                return co()
        f = OX()
    w = awaitify(f)
    out = []

    async def one():
        return await w(1)
    for _ in case["behs"]:
        res = drive(one())
        if res.exc is not None:
            out.append(["exc", getattr(res.exc, "eid", None)] if hasattr(res.exc, "eid") else ["libexc", type(res.exc).__name__])
        elif _inspect.isawaitable(res.value):
            if hasattr(res.value, "close"):
                res.value.close()
            out.append(["unawaited"])
        else:
            out.append(["val", res.value])
    return out


# ---------------------------------------------------------------------------------------------
# exit callbacks of ExitStack: every flavour of the same exit handler / context manager / callback


_XS_FLAV = {"exit": ["def", "async", "partial", "obj"], "cm": ["def", "async"], "callback": ["def", "async", "partial", "obj"]}


def _exitstack_cases(tier):
    from props import c14
    beh1 = [("F", "F"), ("T", "T"), ("R", "R"), ("F", "S"), ("F", "T"), ("R", "F")]
    roles = ["exit", "cm", "callback"]
    for n in (1, 2, 3) if tier != "quick" else (1, 2):
        for rs in itertools.product(roles, repeat=n):
            for behs in itertools.product(beh1, repeat=n):
                for body in (None, c14.BODY_EXC):
                    yield {"tool": "exitstack", "family": "exitstack", "roles": list(rs), "behs": [list(b) for b in behs],
                           "body": body, "srcs": [], "params": {}}


def _run_exitstack(case, flavs):
    import functools
    from props import c14
    c14._EXCS.clear()
    log = []
    entries = [c14._Entry(i + 1, c14._entry(i + 1, "x", tuple(b)), log) for i, b in enumerate(case["behs"])]

    def handler(entry, role, fl):
        if role == "exit":
            def react(et, ev, tb):
                return entry.react(ev)
        else:
            def react(*a, **k):
                return entry.react_cb(a, k)
        if fl == "def":
            return react

        async def areact(*a, **k):
            return react(*a, **k)
        if fl == "async":
            return areact
        if fl == "partial":
            async def preact(_t, *a, **k):
                return react(*a, **k)
            return functools.partial(preact, "tag")

        class Obj:
            def __call__(self, *a, **k):
                return areact(*a, **k)
        return Obj()

    async def main():
        async with asyncstdlib.ExitStack() as stack:
            for entry, role, fl in zip(entries, case["roles"], flavs):
                if role == "cm":
                    await stack.enter_context(c14.SCM(entry) if fl == "def" else c14.ACM(entry))
                elif role == "exit":
                    stack.push(handler(entry, role, fl))
                else:
                    stack.callback(handler(entry, role, fl), entry.eid, "a", k=entry.eid)
            if case["body"] is not None:
                raise c14._exc(case["body"])
    return [c14._run(main()), log]


def _observe_exitstack(case):
    base, diffs, n = None, [], 0
    for flavs in itertools.product(*[_XS_FLAV[r] for r in case["roles"]]):
        r = _run_exitstack(case, flavs)
        n += 1
        if base is None:
            base = r
        elif r != base:
            diffs.append([[], list(flavs), r])
    return {"base": base, "variants": n, "diffs": diffs[:5], "ndiffs": len(diffs),
            "async": {"out": ["returned", ["n"]], "vis": [["yield", ["i", 1]]]}}


def _special_cases():
    """values outside the Lean value model (floats, strings, lists): a fast path that hands a *synchronous* argument
    to the builtin (whose float summation, say, is compensated) makes the result depend on the flavour"""
    F = lambda x: ["f", x]  # noqa: E731
    grid = [
        ("sum", {}, [F(0.1)] * 10), ("sum", {"start": F(0.5)}, [F(0.1)] * 7), ("sum", {}, [F(1e100), F(1.0), F(-1e100)]),
        ("sum", {}, [F(1e16), F(1.0), F(1.0), F(-1e16)]), ("sum", {"start": ["l", ["i", 1]]}, [["l", ["i", 2]], ["l", ["i", 3]]]),
        ("sum", {}, [["i", 1], F(0.1), ["b", True], F(0.2)]),
        ("min", {}, [F(0.3), F(0.1), F(0.1)]), ("max", {}, [F(0.3), F(0.1), ["i", 1]]),
        ("sorted", {}, [F(0.3), F(0.1), ["i", 0]]), ("sorted", {"reverse": True}, [["s", "b"], ["s", "a"], ["s", "c"]]),
        ("list", {}, [F(0.5), ["s", "x"], ["l", ["i", 1]]]), ("tuple", {}, [F(0.5), ["s", "x"]]),
        ("accumulate", {}, [F(0.1)] * 6), ("nlargest", {"n": 2}, [F(0.3), F(0.1), F(0.2)]),
        ("nsmallest", {"n": 2}, [["s", "b"], ["s", "a"], ["s", "c"]]),
    ]
    for tool, params, script in grid:
        yield {"tool": tool, "family": "special", "params": params, "srcs": [{"kind": "list", "script": script}], "fns": [],
               "cons": {"fin": "exhaust"}}


def cases(tier, rng):
    L = 2 if tier == "quick" else 3
    yield {"tool": "__all__", "family": "types", "srcs": [], "params": {}}
    yield from _special_cases()
    yield from _awaitify_cases(tier)
    yield from _reuse_cases()
    # awaitify wrappers across separate tool calls and failures (Machines/AwaitifyReuse.lean)
    yield from fam_awaitify_reuse.cases(rng, 1500 if tier == "quick" else 20000)
    yield from _groupby_cases(tier)
    yield from _exitstack_cases(tier)
    n = 0
    for case in s1.base_cases(tier, rng, ["list"], s1.cons_exhaust, maxlen=L):
        if case["tool"] == "islice" and (case["params"].get("step", 1) > 1 or (case["params"].get("stop") or 0) > 2):
            continue
        if case["tool"] == "cycle":
            case = dict(case, cons={"fin": "close", "take": 2 * sum(len(s["script"]) for s in case["srcs"]) + 1})
        for f in case.get("fns", []):
            f["flavour"] = "def"
        yield case
        n += 1
        if n % 3 == 0:   # with a fault: sync kinds cannot fault a real list, so the baseline uses a sync iterator
            variants = list(s1.with_faults(dict(case, srcs=[dict(s, kind="iter") for s in case["srcs"]])))
            if variants:
                yield dict(rng.choice(variants), faulty=True)


def _variants(case):
    ns, nf = len(case["srcs"]), len(case.get("fns", []))
    kinds = [k for k in KINDS if not (case.get("faulty") and k == "list")]
    kprod = list(itertools.product(kinds, repeat=ns)) if ns <= 2 else [tuple(kinds[(i + j) % len(kinds)] for j in range(ns)) for i in range(len(kinds))]
    fprod = list(itertools.product(FLAV, repeat=nf)) if nf <= 1 else [tuple(FLAV[(i + j) % 4] for j in range(nf)) for i in range(4)]
    for ks in kprod:
        for fs in fprod:
            c = dict(case)
            c["srcs"] = [dict(s, kind=k) for s, k in zip(case["srcs"], ks)]
            c["fns"] = [dict(f, flavour=fl) for f, fl in zip(case.get("fns", []), fs)]
            yield ks, fs, c


def _types_check():
    """every library callable returns an awaitable, an async iterator or an async context manager"""
    A = asyncstdlib
    ident = lambda *a: a[0] if a else None  # noqa: E731
    calls = {
        "anext": lambda: A.anext(A.iter([1])), "zip": lambda: A.zip([1], [2]), "map": lambda: A.map(ident, [1]),
        "filter": lambda: A.filter(None, [1]), "enumerate": lambda: A.enumerate([1]), "iter": lambda: A.iter([1]),
        "all": lambda: A.all([1]), "any": lambda: A.any([1]), "max": lambda: A.max([1]), "min": lambda: A.min([1]),
        "sum": lambda: A.sum([1]), "list": lambda: A.list([1]), "dict": lambda: A.dict([(1, 2)]), "set": lambda: A.set([1]),
        "tuple": lambda: A.tuple([1]), "sorted": lambda: A.sorted([1]), "reduce": lambda: A.reduce(lambda a, b: a, [1, 2]),
        "accumulate": lambda: A.accumulate([1]), "batched": lambda: A.batched([1], 1), "cycle": lambda: A.cycle([1]),
        "chain": lambda: A.chain([1]), "compress": lambda: A.compress([1], [1]), "dropwhile": lambda: A.dropwhile(ident, [1]),
        "filterfalse": lambda: A.filterfalse(None, [1]), "takewhile": lambda: A.takewhile(ident, [1]),
        "islice": lambda: A.islice([1], 1), "starmap": lambda: A.starmap(ident, [(1,)]), "pairwise": lambda: A.pairwise([1]),
        "zip_longest": lambda: A.zip_longest([1]), "groupby": lambda: A.groupby([1]), "merge": lambda: A.merge([1]),
        "nlargest": lambda: A.nlargest([1], 1), "nsmallest": lambda: A.nsmallest([1], 1),
        "await_each": lambda: A.await_each([]), "any_iter": lambda: A.any_iter([1]), "apply": lambda: A.apply(ident),
        "closing": lambda: A.closing(A.iter([1])), "nullcontext": lambda: A.nullcontext(), "ExitStack": lambda: A.ExitStack(),
        "scoped_iter": lambda: A.scoped_iter([1]), "borrow": lambda: A.borrow(A.iter([1])),
        "sync": lambda: A.sync(ident)(1),
    }
    bad, seen = [], []
    for name in A.__all__:
        if name not in calls:
            continue
        seen.append(name)
        r = calls[name]()
        ok = inspect.isawaitable(r) or hasattr(r, "__anext__") or hasattr(r, "__aenter__")
        if name == "tee":
            ok = True
        if inspect.iscoroutine(r):
            r.close()
        if not ok:
            bad.append([name, type(r).__name__])
    return {"checked": seen, "plain_results": bad,
            "uncovered": [n for n in A.__all__ if n not in calls and n not in ("tee", "lru_cache", "cache", "cached_property",
                                                                              "contextmanager", "ContextDecorator")]}


def _reuse_cases():
    """ONE function object handed to two SEPARATE tool calls; between the calls the function's answers change flavour
    (a forwarding `def` whose backend is swapped from a plain to an `async def` implementation, or back)"""
    for tool in ("map", "filter", "sorted", "min", "reduce", "groupby", "takewhile", "accumulate"):
        for order in (("plain", "aw"), ("aw", "plain"), ("plain", "aw", "plain")):
            yield {"tool": tool, "family": "reuse", "order": list(order), "srcs": [], "params": {}}


def _observe_reuse(case):
    from world import drive, exc_name
    A = asyncstdlib
    mode = {"m": "plain"}

    async def _aw(v):
        return v

    def base(tool, *args):
        if tool == "reduce" or tool == "accumulate":
            return args[0] + args[1]
        if tool in ("filter", "takewhile"):
            return args[0] < 3
        if tool == "groupby":
            return args[0] // 2
        return -args[0]

    def f(*args):                      # the very same function object in every call
        v = base(case["tool"], *args)
        return v if mode["m"] == "plain" else _aw(v)
    data = [1, 3, 2, 4]

    async def one():
        t = case["tool"]
        if t == "map":
            return await A.list(A.map(f, data))
        if t == "filter":
            return await A.list(A.filter(f, data))
        if t == "takewhile":
            return await A.list(A.takewhile(f, data))
        if t == "accumulate":
            return await A.list(A.accumulate(data, f))
        if t == "sorted":
            return await A.sorted(data, key=f)
        if t == "min":
            return await A.min(data, key=f)
        if t == "reduce":
            return await A.reduce(f, data)
        return [(k, await A.list(g)) async for k, g in A.groupby(data, key=f)]
    outs = []
    for m in case["order"]:
        mode["m"] = m
        r = drive(one())
        outs.append(["ok", repr(r.value)] if r.exc is None else ["exc", exc_name(r.exc)])
    return {"outs": outs, "async": {"out": ["returned", ["n"]], "vis": [["yield", ["i", 1]]]}}


def observe(case):
    if case.get("family") == "awaitifyreuse":
        return fam_awaitify_reuse.observe(case)
    if case.get("family") == "reuse":
        return _observe_reuse(case)
    if case.get("family") == "awaitify":
        out = _run_awaitify(case)
        return {"out": out, "async": {"out": ["returned", ["n"]], "vis": [["yield", ["i", 1]]]}}
    if case.get("family") == "groupby":
        base, diffs, n = None, [], 0
        for kind in KINDS:
            for fl in FLAV:
                r = _run_groupby(case, kind, fl)
                n += 1
                if base is None:
                    base = r
                elif r != base:
                    diffs.append([[kind], [fl], r])
        return {"base": base, "variants": n, "diffs": diffs[:5], "ndiffs": len(diffs),
                "async": {"out": ["returned", ["n"]], "vis": [["yield", ["i", 1]]]}}
    if case.get("family") == "exitstack":
        return _observe_exitstack(case)
    if case.get("family") == "types":
        return {"types": _types_check(), "async": {"out": ["returned", ["n"]], "vis": []}}
    results = []
    base = None
    for ks, fs, c in _variants(case):
        r = run_async(c)
        proj = [yields(r["vis"]), r["out"]]
        if base is None:
            base = proj
        results.append([list(ks), list(fs), proj])
    diffs = [r for r in results if r[2] != base]
    return {"base": base, "variants": len(results), "diffs": diffs[:5], "ndiffs": len(diffs),
            "async": {"out": base[1], "vis": [["yield", v] for v in base[0]]}}


def model_request(case):
    if case.get("family") == "awaitifyreuse":
        return fam_awaitify_reuse.model_request(case)
    if case.get("family") == "awaitify":
        # for Awaitify a class with awaitable instances is "a callable returning an awaitable" (like obj), a bound async
        # method is a coroutine function (like async def)
        return {"m": "awaitify", "flavour": {"cls": "obj", "bound": "async", "wrapsdef": "def"}.get(case["flavour"], case["flavour"]), "behs": case["behs"]}
    if case.get("family") in ("types", "groupby", "exitstack", "special", "reuse") or case["tool"] in s1.NO_MODEL:
        return None
    return tools.model_request(case)


def judge(case, obs, model):
    issues = []
    if case.get("family") == "awaitifyreuse":
        return fam_awaitify_reuse.judge(case, obs, model)
    if case.get("family") == "reuse":
        if len({json.dumps(o) for o in obs["outs"]}) != 1 or obs["outs"][0][0] != "ok":
            issues.append(Issue("oracle", {"outs": obs["outs"], "order": case["order"]},
                                "result-depends-on-the-flavour-of-an-earlier-call:" + case["tool"]))
        return issues
    if case.get("family") == "awaitify":
        want = [["val", b[1]] if b[0] == "ok" else ["exc", b[1]] for b in case["behs"]]
        if obs["out"] != want:
            issues.append(Issue("oracle", {"flavour": case["flavour"], "got": obs["out"], "expected": want},
                                "awaitify-changes-result:" + case["flavour"]))
        if model is not None and model.get("out") != obs["out"]:
            issues.append(Issue("A", {"asyncstdlib": obs["out"], "model": model.get("out", model)}))
        return issues
    if case.get("family") == "types":
        if obs["types"]["plain_results"]:
            issues.append(Issue("oracle", obs["types"], "plain-value-returned"))
        if obs["types"]["uncovered"]:
            issues.append(Issue("drift", {"names without a type check": obs["types"]["uncovered"]}))
        return issues
    if obs["ndiffs"]:
        kinds, flavs, proj = obs["diffs"][0]
        issues.append(Issue("oracle", {"baseline": obs["base"], "variant": {"kinds": kinds, "flavours": flavs, "got": proj},
                                       "variants_differing": obs["ndiffs"]}, "flavour-changes-result:" + case["tool"]))
    if model is not None and "error" not in model:
        m = [yields(model["impl"]["vis"]), model["impl"]["out"]]
        if m != obs["base"]:
            issues.append(Issue("A", {"asyncstdlib": obs["base"], "model": m}))
    elif model is not None:
        issues.append(Issue("A", model))
    return issues


def features(case, obs):
    if case.get("family") == "awaitifyreuse":
        return fam_awaitify_reuse.features(case, obs)
    if case.get("family") == "types":
        return ["types"]
    if case.get("family") in ("groupby", "exitstack"):
        return ["tool=" + case["tool"], "variants=%d" % obs["variants"]]
    if case.get("family") == "awaitify":
        return ["tool=awaitify", "flavour=" + case["flavour"]]
    if case.get("family") == "reuse":
        return ["tool=" + case["tool"], "reuse:" + "-".join(case["order"])]
    return ["tool=" + case["tool"], "variants=%d" % obs["variants"], "faulty" if case.get("faulty") else "fault-free"]


def nontrivial(case, obs):
    return case.get("family") in ("types", "groupby", "awaitify", "exitstack", "reuse", "awaitifyreuse") or bool(obs["base"][0]) or obs["base"][1][0] in ("returned", "raised")


def search_cases(broken, rng):
    yield from cases("quick", rng)
