"""C11 — lru_cache stays correct under overlapping calls and cancellation."""
import functools
import itertools

from framework import Issue
import fam_lru_order
from world import Susp, UserExc, UserBaseExc, exc_name, asyncstdlib
from props.c10 import P, I0, I1, I2, F1, BT, SA, NO, py_args

RULE = (
    "a case = maxsize (None, 0, 1, 2, 3) x typed x 2..4 task programs (1..3 actions each: call pattern whose wrapped function "
    "suspends 0..2 times then returns or raises, cache_clear, cache_discard, cache_info) x a schedule (one entry = one send on "
    "one task, or one cancellation thrown into it at its current suspension point), followed by a drain and a sequential epilogue "
    "task that calls every pattern twice. The real asyncstdlib cache is driven by hand (no event loop): one schedule entry = one "
    "coro.send / coro.throw. Exhaustive part: every interleaving of two tasks over a program grid, and every position of a single "
    "cancellation; then seeded random cases with 2..4 tasks. non-trivial = at least two calls were in flight at the same time; distinct by case content"
)
EXHAUSTIVE = {"quick": True, "thorough": True}
SCOPE = {"quick": "2 tasks x 9 programs each (1..2 actions over 2 keys, 1 suspension) x maxsize {None,1,2} x all interleavings "
                  "x {no cancellation, one cancellation at every schedule position}",
         "thorough": "2 tasks x 15 programs each (1..2 actions over 2 keys, 1..2 suspensions) x maxsize {None,1,2} x all "
                     "interleavings x every cancellation position; 3 tasks x 4 programs x maxsize {1,2} x all interleavings"}
TRUSTED = [
    "Machines/Lru.lean cstep splits __call__ at its only await; that Python can switch tasks nowhere else inside the cache code "
    "is the modelled-not-verified assumption (the harness would see any other suspension as a foreign token / extra step)",
    "the task layer (schedStep) is proved to perform only machine steps (C11_schedules); its agreement with real coroutines is sampled",
]
ASSUMPTIONS = [
    "the wrapped function suspends only through harness awaitables, does not catch the cancellation and does not call the cache",
    "a cancellation is a BaseException thrown at the task's current suspension point (what asyncio.Task.cancel does)",
    "key equality for the 'value was produced for an equal pattern' oracle is decided by functools._make_key",
]

K1, K2, K3 = P(I1), P(I2), P(a=I1)
KEYS = [K1, K2, K3]


class Cancel(UserBaseExc):
    pass


def _dec(case):
    return ["paren", case["maxsize"], case["typed"]]


def _run_real(case):
    ms, typed = case["maxsize"], case["typed"]
    log = []                 # events of the current step
    cur = {}                 # context of the call being started (fn reads it synchronously)
    invoked = set()
    waiting = {}             # task -> call id it is suspended in
    checks = []              # (kind, call, info before, info after) for failing / cancelled calls

    def info():
        i = cached.cache_info()
        return ["info", i.hits, i.misses, i.maxsize, i.currsize]

    async def fn(*args, **kw):
        c, susp, res, want = cur["c"], cur["susp"], cur["res"], cur["args"]
        if (args, kw) != want:
            log.append(["badargs", c])
        invoked.add(c)
        log.append(["started", c])
        t = c // 100
        try:
            for j in range(susp):
                waiting[t] = c
                await Susp(["w", c, j])
        except BaseException:  # noqa: B036 - cancellation passes through, recorded only
            waiting.pop(t, None)
            cur["fail_info"] = info()
            raise
        waiting.pop(t, None)
        if res[0] == "fail":
            cur["fail_info"] = info()
            raise UserExc(res[1])
        return res[1]

    cached = asyncstdlib.lru_cache(maxsize=ms, typed=typed)(fn)

    async def task(t, prog):
        for i, act in enumerate(prog):
            c = 100 * t + i
            if act[0] == "call":
                args, kw = py_args(act[1])
                cur.update(c=c, susp=act[2], res=act[3], args=(args, kw))
                try:
                    v = await cached(*args, **kw)
                except UserExc as e:
                    checks.append(["raised", c, cur.get("fail_info"), info()])
                    log.append(["raised", c, e.eid])
                    continue
                log.append(["ret" if c in invoked else "hit", c, v])
            elif act[0] == "clear":
                cached.cache_clear()
                log.append(["clear"])
            elif act[0] == "discard":
                args, kw = py_args(act[1])
                cached.cache_discard(*args, **kw)
                log.append(["discard"])
            elif act[0] == "info":
                log.append(info())

    coros = [task(t, prog) for t, prog in enumerate(case["tasks"])]
    state = ["new"] * len(coros)
    steps = []
    for kind, t in case["sched"]:
        del log[:]
        if t < len(coros) and state[t] != "done":
            try:
                if kind == "x" and state[t] == "susp":
                    c = waiting.get(t)
                    try:
                        coros[t].throw(Cancel("cancel"))
                        log.append(["cancel-swallowed", c])
                        state[t] = "susp"
                    except Cancel:
                        checks.append(["cancelled", c, cur.get("fail_info"), info()])
                        log.append(["cancelled", c])
                        state[t] = "done"
                else:
                    coros[t].send(None)
                    state[t] = "susp"
            except StopIteration:
                state[t] = "done"
            except BaseException as exc:  # noqa: B036
                log.append(["task-died", exc_name(exc)])
                state[t] = "done"
        steps.append({"ev": [list(e) for e in log], "info": info(), "inflight": sum(1 for s in state if s == "susp")})
    for co in coros:
        co.close()
    return {"steps": steps, "checks": checks}


def observe(case):
    if case.get("family") == "lruorder":
        return fam_lru_order.observe(case)
    return _run_real(case)


def model_requests(case, obs):
    """(one model run per case; the `lruorder` family builds its request from the executed steps)"""
    if case.get("family") == "lruorder":
        return [fam_lru_order.model_request(case, obs)]
    return [model_request(case)]


def model_request(case):
    return {"m": "lru", "mode": "conc", "dec": _dec(case), "tasks": case["tasks"], "sched": case["sched"]}


def _key(case, pat):
    args, kw = py_args(pat)
    return functools._make_key(args, kw, case["typed"])


def _pattern_of(case, c):
    return case["tasks"][c // 100][c % 100][1]


def _oracle(case, obs):
    """the property's own predicates, on the real run only"""
    ms = case["maxsize"]
    eff = None if ms is None else max(ms, 0)
    calls = invoked = 0
    produced = []            # (key, value) the wrapped function has returned so far
    inflight_over = False
    for n, st in enumerate(obs["steps"]):
        for ev in st["ev"]:
            tag = ev[0]
            if tag in ("badargs", "cancel-swallowed", "task-died"):
                return "unexpected-" + tag, {"step": n, "event": ev}
            if tag == "started":
                calls += 1
                invoked += 1
            elif tag == "hit":
                calls += 1
                k = _key(case, _pattern_of(case, ev[1]))
                if not any(pk == k and pv == ev[2] for pk, pv in produced):
                    return "value-not-produced-for-equal-pattern", {"step": n, "event": ev}
            elif tag == "ret":
                res = case["tasks"][ev[1] // 100][ev[1] % 100][3]
                if res != ["ok", ev[2]]:
                    return "caller-got-foreign-value", {"step": n, "event": ev}
                produced.append((_key(case, _pattern_of(case, ev[1])), ev[2]))
            elif tag == "clear":
                calls = invoked = 0
            elif tag == "info":
                pass
        i = st["info"]
        if eff is not None and i[4] > eff:
            return "currsize-exceeds-maxsize", {"step": n, "info": i}
        if i[1] + i[2] != calls:
            return "hits-plus-misses-not-calls", {"step": n, "info": i, "calls": calls}
        if i[2] != invoked:
            return "misses-not-invocations", {"step": n, "info": i, "invocations": invoked}
        if st["inflight"] >= 2:
            inflight_over = True
    for kind, c, before, after in obs["checks"]:
        if before is None or before != after:
            return "failed-call-changed-cache:" + kind, {"call": c, "before": before, "after": after}
    # epilogue (last task, runs alone after everything finished): second call of a pattern in a row is a hit
    if eff != 0:
        ep = len(case["tasks"]) - 1
        evs = [ev for st in obs["steps"] for ev in st["ev"] if ev[0] in ("hit", "ret") and ev[1] // 100 == ep]
        for a, b in zip(evs[0::2], evs[1::2]):
            if b[0] != "hit" or b[2] != a[2]:
                return "cache-unusable-after-quiescence", {"first": a, "second": b}
    return None, None


def judge(case, obs, model):
    issues = []
    if isinstance(model, list):
        model = model[0] if model else None
    if case.get("family") == "lruorder":
        return fam_lru_order.judge(case, obs, model)
    tag, detail = _oracle(case, obs)
    if tag is not None:
        issues.append(Issue("oracle", dict(detail, steps=obs["steps"]), tag))
    if model is not None:
        if "error" in model:
            issues.append(Issue("A", model))
        else:
            if model["steps"] != obs["steps"]:
                k = next((i for i, (x, y) in enumerate(zip(model["steps"], obs["steps"])) if x != y), None)
                issues.append(Issue("A", {"first_diff_at_step": k, "impl": obs["steps"][k] if k is not None else None,
                                          "model": model["steps"][k] if k is not None else None}))
            if not (model["size_ok"] and model["counters_ok"] and model["same_final"]):
                issues.append(Issue("MS", {k: model[k] for k in ("size_ok", "counters_ok", "same_final")}))
    return issues


def features(case, obs):
    if case.get("family") == "lruorder":
        return fam_lru_order.features(case, obs)
    f = ["maxsize=%s" % case["maxsize"], "typed=%s" % case["typed"], "tasks=%d" % (len(case["tasks"]) - 1),
         "sched=%d" % (10 * (len(case["sched"]) // 10))]
    if any(k == "x" for k, _ in case["sched"]):
        f.append("cancel-scheduled")
    evs = [ev[0] for st in obs["steps"] for ev in st["ev"]]
    for t in ("cancelled", "raised", "hit", "clear", "discard"):
        if t in evs:
            f.append("ev=" + t)
    if any(st["inflight"] >= 2 for st in obs["steps"]):
        f.append("overlap")
    if any(st["inflight"] >= 1 and any(e[0] in ("clear", "discard") for e in st["ev"]) for st in obs["steps"]):
        f.append("clear-or-discard-during-flight")
    ms = case["maxsize"]
    if ms and any(st["info"][4] == ms and st["inflight"] >= 1 for st in obs["steps"]):
        f.append("miss-in-flight-on-full-cache")
    return f


def nontrivial(case, obs):
    if case.get("family") == "lruorder":
        return fam_lru_order.nontrivial(case, obs)
    return any(st["inflight"] >= 2 for st in obs["steps"])


# ---------------------------------------------------------------------------------------------
# case generation


def _sends(prog):
    """upper bound on the sends a task needs (all calls miss)"""
    return 1 + sum(a[2] for a in prog if a[0] == "call")


def _finish(tasks, sched, keys, maxsize, typed):
    """number values, append drain + epilogue"""
    tasks = [[list(a) for a in prog] for prog in tasks]
    for t, prog in enumerate(tasks):
        for i, a in enumerate(prog):
            if a[0] == "call":
                a[3] = [a[3][0], 100 * t + i] if a[3][0] == "ok" else ["fail", 100 * t + i]
    ep = len(tasks)
    eprog = []
    for j, k in enumerate(keys):
        eprog.append(["call", k, 0, ["ok", 100 * ep + 2 * j]])
        eprog.append(["call", k, 0, ["ok", 100 * ep + 2 * j + 1]])
    eprog.append(["info"])
    sched = [list(s) for s in sched]
    for t, prog in enumerate(tasks):
        sched += [["s", t]] * _sends(prog)
    sched.append(["s", ep])
    return {"maxsize": maxsize, "typed": typed, "tasks": tasks + [eprog], "sched": sched}


def _interleavings(counts):
    """all sequences in which task t occurs counts[t] times"""
    total = sum(counts)

    def rec(rem, acc):
        if len(acc) == total:
            yield list(acc)
            return
        for t in range(len(rem)):
            if rem[t]:
                rem[t] -= 1
                acc.append(t)
                yield from rec(rem, acc)
                acc.pop()
                rem[t] += 1
    yield from rec(list(counts), [])


def _programs(tier):
    def two(a, sa, b, sb, fail=False):
        return [["call", a, sa, ["fail", 0] if fail else ["ok", 0]], ["call", b, sb, ["ok", 0]]]
    progs = [[["call", k, 1, ["ok", 0]]] for k in (K1, K2)]
    progs += [two(K1, 1, K2, 1), two(K1, 1, K1, 1), two(K2, 1, K1, 1), two(K1, 1, K1, 1, fail=True),
              [["call", K1, 1, ["ok", 0]], ["clear"]],
              [["discard", K1], ["call", K2, 1, ["ok", 0]]], [["clear"], ["call", K1, 1, ["ok", 0]]]]
    if tier != "quick":
        progs += [[["call", k, 2, ["ok", 0]]] for k in (K1, K2)]
        progs += [two(K1, 2, K2, 1), two(K2, 1, K1, 2), [["call", K1, 2, ["fail", 0]]],
                  [["call", K1, 1, ["ok", 0]], ["discard", K1]]]
    return progs


def _exhaustive(tier):
    progs = _programs(tier)
    for ms in (None, 1, 2):
        for p0 in progs:
            for p1 in progs:
                counts = [_sends(p0), _sends(p1)]
                for il in _interleavings(counts):
                    base = [["s", t] for t in il]
                    yield _finish([p0, p1], base, [K1, K2, K3], ms, False)
                    for pos in range(1, len(base)):
                        sched = [list(s) for s in base]
                        sched[pos][0] = "x"
                        yield _finish([p0, p1], sched, [K1, K2, K3], ms, False)
    if tier != "quick":
        small = [[["call", K1, 1, ["ok", 0]]], [["call", K2, 1, ["ok", 0]], ["call", K1, 1, ["ok", 0]]],
                 [["call", K1, 2, ["ok", 0]]], [["clear"], ["call", K1, 1, ["ok", 0]]]]
        for ms in (1, 2):
            for ps in itertools.product(small, repeat=3):
                for il in _interleavings([_sends(p) for p in ps]):
                    yield _finish(list(ps), [["s", t] for t in il], [K1, K2], ms, False)


POOL = [K1, K2, K3, P(F1), P(BT), P(I1, I2), P(F1, I2), P(SA), P(I0)]


def random_case(rng):
    nt = rng.randint(2, 4)
    nk = rng.randint(1, 3)
    keys = rng.sample(POOL, nk)
    if rng.random() < 0.2:
        # argument patterns that differ only by a keyword next to one positional int / str (the key's single-argument fast path)
        keys = rng.choice([[K1, P(I1, a=I2), P(I1, b=I2)], [P(SA), P(SA, a=SA), K1], [P(I1, a=I2), K1, P(a=I1)],
                           # a positional tuple that looks like a flattened keyword item (name, value) behind a None
                           [P(I1, NO, ["t", [SA, I2]]), P(I1, a=I2), K1], [P(NO, ["t", [SA, I1]]), P(a=I1), K2]])[:max(nk, 2)]
    elif rng.random() < 0.3:
        keys = (keys + [P(F1), P(BT)])[:3]       # equal under == , distinct when typed
    ms = rng.choice([None, 1, 1, 2, 2, 3, 0])
    typed = rng.random() < 0.3
    tasks = []
    for _ in range(nt):
        prog = []
        for _ in range(rng.randint(1, 3)):
            x = rng.random()
            if x < 0.74:
                res = ["fail", 0] if rng.random() < 0.15 else ["ok", 0]
                prog.append(["call", rng.choice(keys), rng.choice([0, 1, 1, 1, 2, 2]), res])
            elif x < 0.84:
                prog.append(["clear"])
            elif x < 0.94:
                prog.append(["discard", rng.choice(keys)])
            else:
                prog.append(["info"])
        tasks.append(prog)
    total = sum(_sends(p) for p in tasks)
    sched = [["s", rng.randrange(nt)] for _ in range(rng.randint(nt, total + 2))]
    if rng.random() < 0.6:
        sched[rng.randrange(len(sched))][0] = "x"
    return _finish(tasks, sched, keys, ms, typed)


def cases(tier, rng):
    yield from _exhaustive(tier)
    # the ORDER of the cache after every step of hand-scheduled overlapping calls (C11_order_*, driver `lruorder`)
    yield from fam_lru_order.cases(rng, 1500 if tier == "quick" else 15000)
    for _ in range(10000 if tier == "quick" else 60000):
        yield random_case(rng)


def search_cases(broken, rng):
    for case in broken:
        for ms in (None, 1, 2, 3):
            yield dict(case, maxsize=ms)
        for pos in range(len(case["sched"])):
            sched = [["s", t] for _, t in case["sched"]]
            sched[pos][0] = "x"
            yield dict(case, sched=sched)
    yield from _exhaustive("quick")
    for _ in range(4000):
        yield random_case(rng)
