#!/usr/bin/env python3
"""Regenerates /verif/MANIFEST.json from the table below (kept in one place so the manifest stays valid)."""
import json
from pathlib import Path

ROOT = Path(__file__).resolve().parent.parent
ALL = ["C%02d" % i for i in range(1, 21)]

CHECKS = {
    "C04": {
        "technique": "Lean 4 proof (generic release lemmas for try/finally + closeSrc/closeAll, instantiated per tool, for every world) + model/implementation correspondence + direct oracle on instrumented sources",
        "text": "Lean theorems C04_<tool> for filter, filterfalse, enumerate, takewhile, dropwhile, starmap, accumulate, batched, islice, pairwise, zip, zip(strict), map, zip_longest, compress, merge, cycle, chain (C04_chain_exhausted: run to its end; C04_chain_closed: closed by its consumer, also inputs never reached) and the aggregations all, any, sum, min/max, reduce, list, tuple, sorted, nlargest/nsmallest: in EVERY world (every input, every fault position in sources/callables, consumer exhausting / closing after any number of items / throwing after any number of items) every source handed to the tool ends Released (async generator: closed, exhausted or finished by its own failure; class-based iterator with aclose: aclose() called or StopAsyncIteration delivered), provided the model did not run out of fuel; Properties/C04Fuel.lean discharges that proviso: 25 corollaries C04_<tool>_total state the release for EVERY world and every fuel >= (sum of the) script length(s) + 1 (Proofs/FuelAdequate.lean proves, with a small Hoare-style calculus over the model's loops, that this much fuel is always adequate; its constant is tight). cycle and sorted release their source although the scope is not their outermost construct (C04_cycle, C04_sorted: what follows the scope never touches a source; C04_cycle_total needs a consumer that ends after finitely many items — cycle diverges otherwise, as in Python). chain ended by an error: C04_chain_raised / C04_chain_owner_close / C04_chain_unreleased_untouched (every source released after the owner's chain.aclose(), untouched before; open finding D19 is exactly the one-step gap); tee and groupby handles are not proved here (tee: C09; set/dict: C04_set, C04_dict and their _total forms). The clean-up helper _core.close_all used by zip / zip_longest / merge / chain.aclose since fix 67a7399 is modelled without H-close in Machines/Cleanup.lean: C04_cleanup_every_iterator_closed (every iterator that has an aclose gets it called exactly once, in order, whatever the others do), C04_cleanup_refines_nested (= leaving nested async-with ScopedIter blocks), C04_cleanup_finally, C04_cleanup_flat_skips_after_first_failure (what the old loop did: D17/D23), compared on every run with the real close_all and with real nested scopes. chain / chain.from_iterable as OBJECTS are Machines/ChainObj.lean (C04_chain_aclose_closes_all_owned: an accepted aclose closes every owned iterator and the open inner one, in the code's order, an exception of one close not preventing the others; C20_chain_owned_fixed; C18_chain_cancel_releases), compared operation by operation with the real objects (family chainobj: next / aclose / aclose while a fetch runs / cancel over four argument kinds). On every run the real tools are driven over all tools x parameter grid x item sequences x {exhaust, every close cut, every throw cut} x every single fault position with async-generator and class-based sources and the release predicate is checked on the real objects.",
        "note": "Hypothesis H-close (a user aclose() neither raises nor suspends) is carried by the S1 release theorems; the clean-up step itself is proved without it (Machines/Cleanup.lean) and exercised by the oddsrc family (raising aclose / raising __aiter__; D23 fixed, D24 open). The fuel proviso (result is not outOfFuel) is discharged by Properties/C04Fuel.lean for every fuel above the script lengths. Every second class-based source of the harness offers aclose only through __getattr__ (found D22, fixed 8aa46cc). Parameter-validation errors (batched n<1) are outside the property's wording. Known finding D19 (open): chain() raising while later iterables were never started leaves them unreleased until chain.aclose(); the check verifies they are released after the owner's aclose().",
    },
    "C06": {
        "technique": "Lean 4 proof (Faithful: semantic predicate closed under the model's combinators, by induction on fuel/lists, for every world) + model/implementation correspondence + direct oracle on exception identity",
        "text": "Faithful m: in every world the visible events m adds either contain no fault and m does not end with a user exception, or they END with exactly one fault event (source failing, callable failing, consumer throwing) carrying e, and m raises that very e. Corollaries C06_surfaces_at_once and C06_never_swallowed; C06_<tool> proves Faithful for the models of filter, filterfalse, enumerate, takewhile, dropwhile, starmap, accumulate, batched, chain's iterator, compress, cycle, islice, pairwise, zip, zip(strict), map, zip_longest, merge, iter(callable, sentinel), all, any, sum, min/max, reduce, list, tuple, sorted, nlargest/nsmallest. 'Same items before the failure as the stdlib' is the C05 twin theorem (proved for 17 of these). set/dict: C06_set, C06_dict. chain handle: C06_chain. groupby under failing keys / failing pulls: Machines/GroupByFault.lean (C16_refines_under_faults, C16_failed_item_dropped, C16_fault_delivered_by_puller); tee: C09. On every run every single fault position is injected into the real tools (sync and async sources/callables) and the oracle checks items before the fault against the real stdlib, identity (`is`) of the exception reaching the consumer, and that nothing is used after the fault.",
        "note": "Injected exceptions are ordinary Exception subclasses. The model's sources/callables have one primitive for sync and async flavours; flavour-independence of the real code is checked by the correspondence (flavours rotated), see C03.",
    },
    "C05": {
        "technique": "Lean 4 proof (twin theorems: asyncstdlib model vs CPython-algorithm model equal on the whole visible event log for every world) + model/implementation and spec/stdlib correspondence",
        "text": "For filter, filterfalse, enumerate, takewhile, starmap, accumulate, batched, pairwise, cycle, chain, compress, dropwhile, zip, zip(strict), map, zip_longest, merge, iter(callable, sentinel), all, any: Lean theorems C05_<tool> state that in EVERY world (every input script incl. faults, every number of consumer steps, every consumer ending) the model of asyncstdlib's code and the model of the CPython algorithm produce the same outcome and the same interleaved log of pulls, end-of-source detections, callable invocations with arguments/results and yields. islice's two loop structures burn the model's fuel at different rates, so it is a twin UP TO FUEL: C05_islice (whenever neither run hits the fuel bound: same outcome, same log, for every start/stop/step>=1, world and consumer) with C05_islice_fueled (unconditional for fuel > script length, via islice_impl/std_fuel_adequate); tee children are C09's machine. Both models are tied on every run: asyncstdlib vs Impl model and real itertools/builtins vs Std model, event for event, over all tools x parameter grid x all item sequences (L<=3/4) x every consumer cut point, plus random cases.",
        "note": "Trusted: Lean kernel; axioms propext/Quot.sound; the Std twins are hand-written from CPython 3.12 C sources and validated only by sampling against the real stdlib; the reference for batched is the 3.13 algorithm (3.12.1 polls the exhausted iterator once more after a short final batch). Pulls of real list arguments are unobservable and excluded. Tools without a proved twin are covered by correspondence + direct oracle only.",
    },
    "C14": {
        "technique": "Lean 4 proof (induction on the stack; invariant by induction over histories) + model/implementation correspondence",
        "text": "Lean theorems over a model of ExitStack.__aexit__/push/callback/enter_context/pop_all/aclose: unwinding equals nested async-with for every stack, behaviour and block outcome (C14_nested, C14_order, C14_callback_cannot_suppress); every registered exit runs at most once over every history, failed enters are never exited, pop_all moves exits (C14_once, C14_only_registered, C14_ran_is_gone, C14_popAll, C14_unwind_again). The model is tied to /repo on every run by executing model, real ExitStack, literally nested async-with and contextlib.AsyncExitStack on the same enumerated/random stacks and histories. Exits that touch their own stack while it unwinds (pop_all / push / callback from inside an exit): Machines/ExitStackReentrant.lean models asyncstdlib's and CPython's loops over several stacks; C14_reentrant_refines_contextlib (same log, outcome and final stacks for every script and history), C14_reentrant_once, C14_reentrant_popall_moves / _popall_moved_run_at_close, C14_reentrant_pushed_runs_next, C14_reentrant_conservative (no stack actions => the existing machine); compared 1:1 with both real libraries on the reentrant family. Managers whose __aenter__ / exits / block SUSPEND, cancelled at any suspension point: Machines/ExitStackEnter.lean (C14_enter_suspended_equals_nested for every manager list and operation sequence), compared with asyncstdlib.ExitStack, literally nested statements and contextlib.AsyncExitStack (family entersusp).",
        "note": "Trusted: Lean kernel; axioms propext/Quot.sound only; the hand-written model is tied to the code by sampled correspondence (exhaustive over the behaviour grid for stacks of <=3 (quick) / <=4 (thorough) entries, random histories). Not modelled: __context__ stitching.",
    },
    "C16": {
        "technique": "Lean 4 proof (simulation between two state machines under a reachable-state invariant, induction over operation sequences) + model/implementation correspondence",
        "text": "Lean theorem C16_refines: for every item/key sequence and every sequence of {advance groupby, advance group i} operations the model of asyncstdlib's GroupBy/_Grouper produces exactly the outputs of the model of CPython's groupby_next/_grouper_next (keys, handles, items, stops); plus C16_stale, C16_adv_detaches, C16_closed_group_stops. Both models are run against the real asyncstdlib.groupby and the real itertools.groupby on the same enumerated/random cases on every run.",
        "note": "Trusted: Lean kernel; axioms propext/Quot.sound; correspondence is sampled (exhaustive small scope + random). Keys are modelled with decidable equality (the property's reflexive-equality hypothesis); faults in the key function / source: Machines/GroupByFault.lean and Properties/C16Fault.lean (C16_refines_under_faults: same outputs, exceptions and consumption as the CPython machine for every script mixing items, failing keys and failing pulls and every operation sequence; C16_fault_free_agrees; C16_failed_item_dropped; C16_failed_advance_detaches), compared with the real asyncstdlib.groupby and itertools.groupby on the key-fault family.",
    },
}

_extra = ROOT / "tools" / "manifest_entries.json"
if _extra.exists():
    for _k, _v in json.loads(_extra.read_text()).items():
        CHECKS.setdefault(_k, _v)

NOT_YET = "not claimed yet: model/theorems/correspondence for this property are still being built (see DESIGN.md section 6); no check is registered, so nothing is asserted about it"


def main():
    checks = []
    for pid in ALL:
        if pid not in CHECKS:
            continue
        c = CHECKS[pid]
        checks.append({
            "property_id": pid,
            "quick_cmd": "/venv/bin/python harness/check.py %s --tier quick" % pid,
            "thorough_cmd": "/venv/bin/python harness/check.py %s --tier thorough" % pid,
            "evidence_file": "evidence/%s.json" % pid,
            "replay_cmd_template": "/venv/bin/python harness/check.py %s --replay {path}" % pid,
            "engine": "lean-model",
            "technique": c["technique"],
            "level_claimed": {"category": "proof", "text": c["text"], "design_ref": "DESIGN.md section 6, " + pid},
            "level_note": c["note"],
        })
    manifest = {
        "version": 1,
        "setup_cmd": "cd lean && lake build",
        "hooks": {
            "guard": "ASYNCSTDLIB_VERIF",
            "enable": "no source hooks are needed: every observation is made through public behaviour of instrumented arguments and hand-driven coroutines; the harness sets ASYNCSTDLIB_VERIF=1 for uniformity only",
            "baseline_off_cmd": "cd /repo && /venv/bin/python -m pytest -ra -q -p no:cacheprovider --timeout=900 --continue-on-collection-errors",
            "source_commits": [],
            "add_only": True,
        },
        "engines": [
            {"name": "lean-model", "path": "lean/", "serves_properties": sorted(CHECKS),
             "kind_free_text": "Lean 4 model + property theorems (lake project AsyncVerif) and compiled line-protocol driver avdrv"},
            {"name": "correspondence-harness", "path": "harness/", "serves_properties": sorted(CHECKS),
             "kind_free_text": "Python harness: runs the real asyncstdlib (hand-driven coroutines), the real CPython stdlib reference and the Lean driver on the same cases; direct property oracle; failing-input search"},
        ],
        "checks": checks,
        "not_applicable": [{"property_id": p, "reason": NOT_YET} for p in ALL if p not in CHECKS],
        "notes": "fix: commits in /repo are listed in known_findings.json (status=fixed). Evidence is rewritten by every run.",
    }
    (ROOT / "MANIFEST.json").write_text(json.dumps(manifest, indent=1) + "\n")


if __name__ == "__main__":
    main()
