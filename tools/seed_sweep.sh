#!/bin/bash
# usage: tools/seed_sweep.sh [out-dir] [name-glob]  — every seeded change against the current /repo HEAD and the current /verif:
# patch applied to a scratch worktree, the property's own quick check run against it (VERIF_REPO); when that check does
# not report a violation, the other checks that caught the seed before (meta.json) are tried.  Prints one line per seed.
OUT=${1:-/tmp/sweep}; GLOB=${2:-*}
mkdir -p $OUT
cd /verif/seeded
one() {
  d=$1
  [ -f $d/patch.diff ] || return
  case $d in neutralised-*) return;; esac
  prop=$(python3 -c "import json;print(json.load(open('$d/meta.json'))['property'])" 2>/dev/null || echo ${d:0:3})
  others=$(python3 -c "
import json,re
m=json.load(open('$d/meta.json'))
s=str(m.get('checks_run_quick',''))+' '+str(m.get('caught_by',''))
print(' '.join(sorted(set(re.findall(r'C\d\d', s))-{'$prop'})))" 2>/dev/null)
  S=$(mktemp -d /tmp/sweepwt.XXXX)
  git -C /repo worktree add -q --detach $S HEAD
  if ! git -C $S apply /verif/seeded/$d/patch.diff 2>/dev/null; then echo "$d NOAPPLY"; git -C /repo worktree remove --force $S; return; fi
  res=""
  for c in $prop $others; do
    E=$(mktemp -d /tmp/sweepev.XXXX)
    ( cd /verif && VERIF_REPO=$S VERIF_EVIDENCE_DIR=$E VERIF_REPLAYS_DIR=$E/replays timeout 900 /venv/bin/python harness/check.py $c --tier quick > $OUT/$d.$c.out 2>&1 ); rc=$?
    rm -rf $E
    res="$res $c=$rc"
    [ $rc -eq 1 ] && break
  done
  git -C /repo worktree remove --force $S
  echo "$d$res"
}
export -f one; export OUT
eval ls -d $GLOB | xargs -P 3 -I{} bash -c 'one {}'
