#!/bin/bash
# usage: tools/seed_sweep.sh <glob under seeded/> — re-runs every matching seed against its own property's quick check
# (and records the outcome in meta.json under "final"); /repo is patched and restored for each seed
cd /verif
for d in seeded/$1; do
  NAME=$(basename $d)
  P=$(echo $NAME | cut -c1-3)
  [ -f $d/patch.diff ] || continue
  git -C /repo apply /verif/$d/patch.diff 2>/dev/null || { echo "$NAME patch-does-not-apply"; continue; }
  /venv/bin/python harness/check.py $P --tier quick > /tmp/sweep_$NAME.out 2>&1; rc=$?
  git -C /repo checkout -- .
  V=$(grep -E '^VIOLATION' /tmp/sweep_$NAME.out | head -1)
  T=$(grep -E '^violation tags' /tmp/sweep_$NAME.out | cut -c1-300)
  echo "$NAME $P exit=$rc $V"
  python3 - "$d/meta.json" "$P" "$rc" "$V" "$T" <<'PY'
import json, sys
path, prop, rc, v, t = sys.argv[1:6]
try:
    m = json.load(open(path))
except Exception:
    m = {}
m["final"] = {"check": prop, "exit": int(rc), "violation_line": v, "tags": t}
json.dump(m, open(path, "w"), indent=1)
PY
done
git -C /verif checkout -- evidence 2>/dev/null
