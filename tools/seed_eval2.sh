#!/bin/bash
# usage: tools/seed_eval2.sh <Cxx> <name> <dir-with-patch.diff-demo_*.py-meta.json> [check ids...]
# Like seed_eval.sh but never touches /repo: the patch is applied to a scratch worktree and the checks run
# against it through VERIF_REPO (evidence/replays go to a scratch directory), so several seeds can be
# evaluated at the same time and while other checks run against /repo.
set -u
PROP=$1; NAME=$2; WT=$(realpath $3); shift 3
CHECKS=${@:-$PROP}
OUT=/verif/seeded/$NAME
mkdir -p $OUT
cp $WT/patch.diff $OUT/patch.diff
DEMO=$(ls $WT/demo_*.py | head -1)
cp $DEMO $OUT/
[ -f $WT/meta.json ] && cp $WT/meta.json $OUT/author_meta.json
S=$(mktemp -d /tmp/seedchk.XXXX)
git -C /repo worktree add -q --detach $S HEAD
cd $S
( PYTHONPATH=$S timeout 120 /venv/bin/python $DEMO >/dev/null 2>&1 ); D0=$?
git apply $OUT/patch.diff; AP=$?
T=$(PYTHONPATH=$S timeout 600 /venv/bin/python -m pytest -q -p no:cacheprovider unittests 2>&1 | tail -1)
( PYTHONPATH=$S timeout 120 /venv/bin/python $DEMO >/dev/null 2>&1 ); D1=$?
echo "apply=$AP demo_without=$D0 demo_with=$D1 tests='$T'"
RES=""
if [ $AP -eq 0 ]; then
  cd /verif
  for c in $CHECKS; do
    E=$(mktemp -d /tmp/seedev.XXXX)
    VERIF_REPO=$S VERIF_EVIDENCE_DIR=$E VERIF_REPLAYS_DIR=$E/replays /venv/bin/python harness/check.py $c --tier quick > $OUT/check_$c.out 2>&1; rc=$?
    RES="$RES $c:exit=$rc"
    grep -E "^VIOLATION|^KNOWN" $OUT/check_$c.out | head -3
    grep -E "^violation tags" $OUT/check_$c.out | cut -c1-300
    rm -rf $E
  done
fi
cd /verif
git -C /repo worktree remove --force $S
echo "checks:$RES"
cat > $OUT/meta.json <<META
{"property": "$PROP", "name": "$NAME", "patch_applies": $AP, "demo_exit_without_patch": $D0, "demo_exit_with_patch": $D1,
 "suite_with_patch": "$T", "checks_run_quick": "$RES"}
META
