#!/bin/bash
# usage: tools/refactor_eval.sh <name> <worktree-with-patch.diff> [check ids... (default: all 20)]
# A behaviour-preserving refactoring written by a sub-agent: no check may raise an alarm on it.
# 1. confirms in a fresh scratch worktree that the suite passes with the patch
# 2. applies the patch to /repo, runs the quick checks, reverts /repo
# 3. stores patch/notes/meta under /verif/refactors/<name>/
set -u
NAME=$1; WT=$(realpath $2); shift 2
CHECKS=${@:-C01 C02 C03 C04 C05 C06 C07 C08 C09 C10 C11 C12 C13 C14 C15 C16 C17 C18 C19 C20}
OUT=/verif/refactors/$NAME
mkdir -p $OUT
cp $WT/patch.diff $OUT/patch.diff
[ -f $WT/NOTES.txt ] && cp $WT/NOTES.txt $OUT/
S=$(mktemp -d /tmp/refchk.XXXX)
git -C /repo worktree add -q --detach $S HEAD
cd $S
git apply $OUT/patch.diff; AP=$?
T=$(PYTHONPATH=$S /venv/bin/python -m pytest -q -p no:cacheprovider unittests 2>&1 | tail -1)
cd /verif
git -C /repo worktree remove --force $S
echo "apply=$AP tests='$T' lines=$(grep -c '^[+-]' $OUT/patch.diff)"
RES=""; ALARMS=""
if [ $AP -eq 0 ]; then
  git -C /repo apply $OUT/patch.diff
  for c in $CHECKS; do
    /venv/bin/python harness/check.py $c --tier quick > $OUT/check_$c.out 2>&1; rc=$?
    RES="$RES $c:$rc"
    if [ $rc -ne 0 ]; then ALARMS="$ALARMS $c"; grep -E "VIOLATION|HARNESS" $OUT/check_$c.out | head -2; else rm -f $OUT/check_$c.out; fi
  done
  git -C /repo checkout -- .
  git -C /verif checkout -- evidence 2>/dev/null
fi
echo "checks:$RES"
echo "alarms:$ALARMS"
cat > $OUT/meta.json <<META
{"name": "$NAME", "patch_applies": $AP, "suite_with_patch": "$T", "checks_run_quick": "$RES", "alarms": "$ALARMS"}
META
