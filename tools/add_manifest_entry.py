#!/usr/bin/env python3
"""add_manifest_entry.py Cxx INTEGRATION.md [occurrence]: extract the technique / text / note blocks (quoted paragraphs after those
labels) and store them in tools/manifest_entries.json (read by gen_manifest.py)."""
import json, re, sys
from pathlib import Path
pid, path = sys.argv[1], sys.argv[2]
occ = int(sys.argv[3]) if len(sys.argv) > 3 else 0
md = Path(path).read_text()
def block(label):
    ms = list(re.finditer(r'(?im)^\s*[-*]?\s*\**%s\**[^\n"]*:\**\s*\n?\s*"' % label, md))
    if not ms:
        raise SystemExit('no %s block' % label)
    m = ms[min(occ, len(ms) - 1)]
    rest = md[m.end():]
    end = re.search(r'"\s*(\n|$)', rest)
    return re.sub(r'\s+', ' ', rest[:end.start()]).strip()
entry = {"technique": block('technique'), "text": block('text'), "note": block('note')}
p = Path(__file__).resolve().parent / 'manifest_entries.json'
d = json.loads(p.read_text()) if p.exists() else {}
d[pid] = entry
p.write_text(json.dumps(d, indent=1, sort_keys=True) + '\n')
print(pid, {k: len(v) for k, v in entry.items()})
