#!/bin/bash
# usage: tools/seed_recheck2.sh <seed-dir-name> <check ids...> — applies seeded/<name>/patch.diff to a scratch worktree of
# /repo and runs the quick checks against it (VERIF_REPO); /repo itself and evidence/ are never touched
NAME=$1; shift
S=$(mktemp -d /tmp/seedchk.XXXX)
git -C /repo worktree add -q --detach $S HEAD
git -C $S apply /verif/seeded/$NAME/patch.diff || { echo "patch does not apply"; git -C /repo worktree remove --force $S; exit 3; }
cd /verif
for c in "$@"; do
  E=$(mktemp -d /tmp/seedev.XXXX)
  VERIF_REPO=$S VERIF_EVIDENCE_DIR=$E VERIF_REPLAYS_DIR=$E/replays /venv/bin/python harness/check.py $c --tier quick > /tmp/recheck_${NAME}_$c.out 2>&1; rc=$?
  echo "$NAME $c exit=$rc $(grep -E '^VIOLATION' /tmp/recheck_${NAME}_$c.out | head -1 | cut -c1-60) $(grep -E '^violation tags' /tmp/recheck_${NAME}_$c.out | cut -c1-200)"
  rm -rf $E
done
git -C /repo worktree remove --force $S
