#!/venv/bin/python
"""Union of the implementation lines executed by the checks (read from evidence/*.json): what no check ever runs.
usage: tools/union_coverage.py [C01 C02 ...]   (default: every evidence file)"""
import json
import sys
from pathlib import Path

ROOT = Path(__file__).resolve().parent.parent
sys.path.insert(0, str(ROOT / "harness"))
import linecov  # noqa: E402

props = sys.argv[1:] or sorted(p.stem for p in (ROOT / "evidence").glob("C*.json"))
hit = {}
for p in props:
    ev = json.loads((ROOT / "evidence" / (p + ".json")).read_text())
    cov = ev["coverage"].get("impl_line_coverage", {})
    for rel, txt in cov.get("executed_lines_all_files", {}).items():
        hit.setdefault(rel, set()).update(linecov.parse_ranges(txt))
files = sorted("asyncstdlib/" + f.name for f in Path("/repo/asyncstdlib").glob("*.py"))
exe = linecov.executable("/repo", files)
tot = got = 0
for rel, lines in exe.items():
    miss = {}
    for l, name in lines.items():
        tot += 1
        if l in hit.get(rel, set()):
            got += 1
        else:
            miss.setdefault(name, []).append(l)
    print("%s: %d/%d function lines executed" % (rel, len(lines) - sum(map(len, miss.values())), len(lines)))
    for name, ls in sorted(miss.items(), key=lambda kv: kv[1][0]):
        print("    %-45s %s" % (name, linecov.ranges(ls)))
print("TOTAL %d/%d" % (got, tot))
