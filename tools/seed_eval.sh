#!/bin/bash
# usage: tools/seed_eval.sh <Cxx> <name> <worktree-with-patch.diff-and-demo> [check ids...]
# 1. confirms in a fresh scratch worktree: suite passes with the patch, demo fails with it, passes without
# 2. applies the patch to /repo, runs the given checks (default: the property's own), reverts /repo
# 3. stores patch/demo/meta under /verif/seeded/<name>/
set -u
PROP=$1; NAME=$2; WT=$(realpath $3); shift 3
CHECKS=${@:-$PROP}
OUT=/verif/seeded/$NAME
mkdir -p $OUT
cp $WT/patch.diff $OUT/patch.diff
DEMO=$(ls $WT/demo_*.py | head -1)
cp $DEMO $OUT/
[ -f $WT/REPORT.md ] && cp $WT/REPORT.md $OUT/
S=$(mktemp -d /tmp/seedchk.XXXX)
git -C /repo worktree add -q --detach $S HEAD
cd $S
cp $DEMO $S/; DEMO=$S/$(basename $DEMO); sed -i "s#$WT#$S#g; s#/tmp/wt-$PROP#$S#g; s#/tmp/w2-$PROP#$S#g" $DEMO
PYTHONPATH=$S /venv/bin/python $DEMO >/dev/null 2>&1; D0=$?
git apply $OUT/patch.diff; AP=$?
T=$(PYTHONPATH=$S /venv/bin/python -m pytest -q -p no:cacheprovider unittests 2>&1 | tail -1)
PYTHONPATH=$S /venv/bin/python $DEMO >/dev/null 2>&1; D1=$?
cd /verif
git -C /repo worktree remove --force $S
echo "apply=$AP demo_without=$D0 demo_with=$D1 tests='$T'"
RES=""
if [ $AP -eq 0 ]; then
  git -C /repo apply $OUT/patch.diff
  for c in $CHECKS; do
    /venv/bin/python harness/check.py $c --tier quick > $OUT/check_$c.out 2>&1; rc=$?
    RES="$RES $c:exit=$rc"
    grep -E "VIOLATION|KNOWN" $OUT/check_$c.out | head -3
  done
  git -C /repo checkout -- .
  git -C /verif checkout -- evidence 2>/dev/null
fi
echo "checks:$RES"
cat > $OUT/meta.json <<META
{"property": "$PROP", "name": "$NAME", "patch_applies": $AP, "demo_exit_without_patch": $D0, "demo_exit_with_patch": $D1,
 "suite_with_patch": "$T", "checks_run_quick": "$RES"}
META
