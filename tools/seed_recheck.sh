#!/bin/bash
# usage: tools/seed_recheck.sh <seed-dir-name> <check ids...>  — applies seeded/<name>/patch.diff to /repo, runs the
# quick checks, reverts /repo; prints exit codes and the VIOLATION lines (evidence restored afterwards)
NAME=$1; shift
cd /verif
git -C /repo apply /verif/seeded/$NAME/patch.diff || { echo "patch does not apply"; exit 3; }
for c in "$@"; do
  /venv/bin/python harness/check.py $c --tier quick > /tmp/recheck_$c.out 2>&1; rc=$?
  echo "$NAME $c exit=$rc $(grep -E '^VIOLATION' /tmp/recheck_$c.out | head -1) $(grep -E '^violation tags' /tmp/recheck_$c.out | cut -c1-200)"
done
git -C /repo checkout -- .
git -C /verif checkout -- evidence 2>/dev/null
