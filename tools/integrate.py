#!/usr/bin/env python3
"""integrate.py <builder-dir> <driver-module> <machine-name> <lean-module>... : copy a builder's new files into /verif
and register imports / driver dispatch. Manifest text is taken from <builder-dir>/INTEGRATION.md by hand."""
import shutil, sys, os
from pathlib import Path
src = Path(sys.argv[1]); drv = sys.argv[2]; mach = sys.argv[3]; mods = sys.argv[4:]
V = Path('/verif')
for sub in ['lean/AsyncVerif/Machines','lean/AsyncVerif/Proofs','lean/AsyncVerif/Properties','lean/Driver','harness/props','corpus','harness','lean/AsyncVerif/Core','lean/AsyncVerif/Impl','lean/AsyncVerif/Std']:
    d = src/sub
    if not d.exists(): continue
    for f in d.iterdir():
        if f.is_file() and not (V/sub/f.name).exists():
            shutil.copy(f, V/sub/f.name); print('new', sub+'/'+f.name)
al = (V/'lean/AsyncVerif.lean').read_text()
for m in mods:
    line = 'import %s\n' % m
    if line not in al: al += line
(V/'lean/AsyncVerif.lean').write_text(al)
mn = (V/'lean/Driver/Main.lean').read_text()
imp = 'import Driver.%s\n' % drv
if imp not in mn:
    mn = mn.replace('open Lean\n', '', 1) if False else mn
    mn = imp + mn
    mn = mn.replace('  | _ => throw s!"unknown machine {m}"', '  | "%s" => Drv.%s.run j\n  | _ => throw s!"unknown machine {m}"' % (mach, drv))
(V/'lean/Driver/Main.lean').write_text(mn)
