#!/bin/bash
# usage: tools/refactor_eval2.sh <name> <dir-with-patch.diff[-meta.json]> [check ids... (default: all 20)]
# A behaviour-preserving refactoring written by a sub-agent: no check may raise an alarm on it.  Like refactor_eval.sh
# but against a scratch worktree (VERIF_REPO); /repo and evidence/ are never touched, so several can run at once.
set -u
NAME=$1; WT=$(realpath $2); shift 2
CHECKS=${@:-C01 C02 C03 C04 C05 C06 C07 C08 C09 C10 C11 C12 C13 C14 C15 C16 C17 C18 C19 C20}
HOME_V=${VERIF_HOME:-/verif}     # a snapshot of /verif may be used so that edits in /verif do not disturb a long evaluation
OUT=/verif/refactors/$NAME
mkdir -p $OUT
cp $WT/patch.diff $OUT/patch.diff
[ -f $WT/meta.json ] && cp $WT/meta.json $OUT/author_meta.json
S=$(mktemp -d /tmp/refchk.XXXX)
git -C /repo worktree add -q --detach $S HEAD
git -C $S apply $OUT/patch.diff; AP=$?
T=$(cd $S && PYTHONPATH=$S /venv/bin/python -m pytest -q -p no:cacheprovider unittests 2>&1 | tail -1)
RES=""; ALARMS=""
if [ $AP -eq 0 ]; then
  cd $HOME_V
  for c in $CHECKS; do
    E=$(mktemp -d /tmp/refev.XXXX)
    VERIF_REPO=$S VERIF_EVIDENCE_DIR=$E VERIF_REPLAYS_DIR=$E/replays timeout 1800 /venv/bin/python harness/check.py $c --tier quick > $OUT/check_$c.out 2>&1; rc=$?
    RES="$RES $c:$rc"
    if [ $rc -ne 0 ]; then ALARMS="$ALARMS $c"; cp -r $E/replays $OUT/replays_$c 2>/dev/null; else rm -f $OUT/check_$c.out; fi
    rm -rf $E
  done
fi
git -C /repo worktree remove --force $S
echo "$NAME apply=$AP tests='$T' lines=$(grep -c '^[+-]' $OUT/patch.diff) alarms:$ALARMS"
cat > $OUT/meta.json <<META
{"name": "$NAME", "patch_applies": $AP, "suite_with_patch": "$T", "checks_run_quick": "$RES", "alarms": "$ALARMS"}
META
